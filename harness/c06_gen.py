"""The malformed stream of property C06: byte-level PSD/PSB builder, hand-made hostile files, header cases and the
structure-aware mutation sections (truncations, bit flips, max-value substitutions, gen_mutants, random strings).

Everything is generated in the parent process from the caller's `rng` (deterministic in VERIF_SEED).  A case is a
dict {"b": bytes, "op": section, "fx": fixture name | None, "why": short recipe, ...}; `delta()` turns any mutant of a
fixture into a self-contained recipe (fixture name + replaced middle) for replay files.
"""
from __future__ import annotations

import struct
import zlib

import lenient_common as lc

BIG_KEYS = {b"LMsk", b"Lr16", b"Lr32", b"Layr", b"Mt16", b"Mt32", b"Mtrn", b"Alph", b"FMsk", b"lnk2", b"lnk3", b"lnkE",
            b"FEid", b"FXid", b"PxSD", b"pths", b"extn", b"extd", b"cinf", b"artd"}


# ------------------------------------------------------------------------------------------------ byte-level builder
def P(fmt, *a):
    return struct.pack(">" + fmt, *a)


def padto(n, k):
    return b"\0" * ((-n) % k)


def lenblock(data, fmt="I", pad=1):
    return P(fmt, len(data)) + data + padto(len(data), pad)


def header(version=1, channels=3, height=4, width=4, depth=8, mode=3, sig=b"8BPS"):
    return P("4sH6xHIIHH", sig, version & 0xFFFF, channels & 0xFFFF, height & 0xFFFFFFFF, width & 0xFFFFFFFF,
             depth & 0xFFFF, mode & 0xFFFF)


def pascal(name: bytes, pad):
    b = bytes([len(name)]) + name
    return b + padto(len(b), pad)


def tagged_block(key, data, version=1, sig=b"8BIM", pad=1, length=None):
    fmt = "Q" if (version == 2 and key in BIG_KEYS) else "I"
    n = len(data) if length is None else length
    return sig + key + P(fmt, n) + data + padto(len(data), pad)


def image_resource(key, data, name=b"", length=None):
    n = len(data) if length is None else length
    return b"8BIM" + P("H", key) + pascal(name, 2) + P("I", n) + data + padto(len(data), 2)


def layer_record(rect=(0, 0, 4, 4), chans=((0, 18), (1, 18), (2, 18)), blend=b"norm", opacity=255, clipping=0, flags=8,
                 name=b"L", blocks=b"", mask=b"", ranges=b"", version=1, sig=b"8BIM", nchan=None, extra_len=None):
    ci = b"".join(P("hQ" if version == 2 else "hI", i, n) for i, n in chans)
    extra = lenblock(mask) + lenblock(ranges) + pascal(name, 4) + blocks
    return (P("4iH", *rect, len(chans) if nchan is None else nchan) + ci + sig + blend +
            bytes([opacity, clipping, flags, 0]) + P("I", len(extra) if extra_len is None else extra_len) + extra)


def layer_info_body(count, records=b"", chandata=b""):
    return P("h", count) + records + chandata


def layer_info(body, version=1, length=None):
    body = body + padto(len(body), 4)
    return P("Q" if version == 2 else "I", len(body) if length is None else length) + body


def lam(li=b"", glm=None, blocks=b"", version=1, length=None):
    body = li + (glm if glm is not None else b"") + blocks
    return P("Q" if version == 2 else "I", len(body) if length is None else length) + body


def chan(comp, data):
    return P("H", comp) + data


def document(hdr, cmd=b"", res=b"", lam_bytes=None, image=None, version=1):
    if lam_bytes is None:
        lam_bytes = P("Q" if version == 2 else "I", 0)
    if image is None:
        image = P("H", 0)
    return hdr + lenblock(cmd) + lenblock(res) + lam_bytes + image


RLE_ROW4 = b"\xfd\x00"                       # PackBits: repeat 0x00 four times


def rle_chan4x4(version=1):
    return P("H", 1) + P("4I" if version == 2 else "4H", 2, 2, 2, 2) + RLE_ROW4 * 4


def unicode_str(s: str):
    d = s.encode("utf-16-be")
    return P("I", len(d) // 2) + d


def syn_doc(version=1, nlayers=2, blocks0=b"", image_comp=0, depth=8, chan0=None):
    """a small valid layered document (4x4 RGB): raw + RLE channels, a unicode-name block, one image resource"""
    dep = max(1, depth // 8)
    raw = chan(0, b"\x10" * (16 * dep))
    recs, cd = b"", b""
    for k in range(nlayers):
        cs = []
        for c in (0, 1, 2, -1):
            if k == 0 and c == 0 and chan0 is not None:
                d = chan0
            else:
                d = rle_chan4x4(version) if (k % 2 == 1 and depth == 8) else raw
            cs.append((c, d))
        blocks = tagged_block(b"luni", unicode_str("L%d" % k) + b"\0\0"[:(4 + 4) % 4], version) + (blocks0 if k == 0 else b"")
        recs += layer_record(chans=[(c, len(d)) for c, d in cs], name=b"L%d" % k, blocks=blocks, version=version,
                             ranges=b"\0\0\xff\xff\0\0\xff\xff" * 4)
        cd += b"".join(d for _, d in cs)
    li = layer_info(layer_info_body(nlayers, recs, cd), version)
    glm = P("I", 0)
    res = image_resource(1005, P("IHHIHH", 72 << 16, 1, 1, 72 << 16, 1, 1))
    if image_comp == 0:
        img = P("H", 0) + b"\x80" * (3 * 16 * dep)
    else:
        img = P("H", 1) + P("12I" if version == 2 else "12H", *([2] * 12)) + RLE_ROW4 * 12
    return document(header(version, 3, 4, 4, depth, 3), b"", res, lam(li, glm, b"", version), img, version)


# ------------------------------------------------------------------------------------------------ zlib bombs
def zlib_bomb(total_mb: int) -> bytes:
    """a valid zlib stream of ~1 KB per MiB that inflates to `total_mb` MiB of zeros (built from one repeated
    sync-flushed deflate block; the Adler-32 of n zero bytes is (n mod 65521) << 16 | 1)"""
    z = b"\0" * (1 << 20)
    co = zlib.compressobj(9, zlib.DEFLATED, -15)
    first = co.compress(z) + co.flush(zlib.Z_SYNC_FLUSH)
    second = co.compress(z) + co.flush(zlib.Z_SYNC_FLUSH)
    third = co.compress(z) + co.flush(zlib.Z_SYNC_FLUSH)
    assert second == third
    n = total_mb << 20
    raw = first + second * (total_mb - 1) + b"\x03\x00"
    return b"\x78\xda" + raw + P("I", ((n % 65521) << 16) | 1)


# ------------------------------------------------------------------------------------------------ nested structures
def nested_lr16(depth, version=1, key=b"Lr16"):
    """layer info body whose single record carries a tagged block Lr16 holding a layer info body whose ... (depth)"""
    body = layer_info_body(0)
    for _ in range(depth):
        rec = layer_record(chans=(), name=b"n", blocks=tagged_block(key, body, version), version=version)
        body = layer_info_body(1, rec, b"")
    return body


def desc(items=b"", count=0, klass=b"null"):
    """descriptor body: name, classID, count, items"""
    return P("I", 0) + P("I", 0) + klass + P("I", count) + items


def desc_item(key4, ostype, value):
    return P("I", 0) + key4 + ostype + value


def nested_objc(depth):
    d = desc()
    for _ in range(depth):
        d = desc(desc_item(b"Clr ", b"Objc", d), 1)
    return d


def nested_vlls(depth):
    v = P("I", 0)
    for _ in range(depth):
        v = P("I", 1) + b"VlLs" + v
    return desc(desc_item(b"Clr ", b"VlLs", v), 1)


def doc_with_block(key, data, version=1, where="layer"):
    """syn document whose first layer (or the global tagged blocks) carries one extra tagged block"""
    if where == "layer":
        return syn_doc(version, 1, tagged_block(key, data, version))
    li = layer_info(layer_info_body(0), version)
    return document(header(version), b"", b"", lam(li, P("I", 0), tagged_block(key, data, version, pad=4), version),
                    None, version)


def doc_with_resource(key, data):
    return document(header(), b"", image_resource(key, data), None, P("H", 0) + b"\0" * 48)


def one_layer_doc(chans, chandata, version=1, rect=(0, 0, 4, 4), hdr=None, li_len=None, count=1, nchan=None):
    rec = layer_record(rect=rect, chans=chans, version=version, nchan=nchan)
    li = layer_info(layer_info_body(count, rec, chandata), version, li_len)
    return document(hdr or header(version), b"", b"", lam(li, P("I", 0), b"", version), None, version)


def hostile():
    """-> [(name, bytes, note)]  hand-made hostile files (deterministic, no rng)"""
    out = []

    def add(name, b, note=""):
        out.append((name, bytes(b), note))

    raw16 = chan(0, b"\x10" * 16)
    # ---- declared layer counts far beyond the data
    for v in (1, 2):
        for cnt, nm in ((0x7FFF, "7fff"), (-0x8000, "8000"), (-1, "ffff")):
            li = layer_info(layer_info_body(cnt), v)
            add(f"layer_count-{nm}-v{v}-nodata", document(header(v), b"", b"", lam(li, P("I", 0), b"", v), None, v),
                "layer_count with no record behind it")
            rec = layer_record(chans=((0, 18),), version=v)
            li = layer_info(layer_info_body(cnt, rec, raw16), v)
            add(f"layer_count-{nm}-v{v}-onerecord", document(header(v), b"", b"", lam(li, P("I", 0), b"", v), None, v),
                "layer_count with one real record")
    # ---- channel lengths 0 / 1 (length-2 negative -> fp.read(-1) reads to the end of the stream) and 0xFFFFFFFF
    for v in (1, 2):
        for ln, nm in ((0, "0"), (1, "1"), (2, "2"), (0xFFFFFFFF, "ffffffff"), (0x7FFFFFFF, "7fffffff")):
            add(f"channel-length-{nm}-v{v}", one_layer_doc(((0, ln), (1, 18), (2, 18)), raw16 * 3, v),
                "ChannelData.read(length-2)")
        add(f"channel-length-ffffffffffffffff-v2", one_layer_doc(((0, 0xFFFFFFFFFFFFFFFF),), raw16, 2), "PSB Q length")
    add("channels-ffff-in-record", one_layer_doc(((0, 18),), raw16, nchan=0xFFFF), "num_channels 65535 with one entry")
    add("layer-rect-huge", one_layer_doc(((0, 18), (1, 18), (2, 18)), raw16 * 3, rect=(-2 ** 31, -2 ** 31, 2 ** 31 - 1, 2 ** 31 - 1)),
        "layer 4Gi x 4Gi with 16 bytes per channel")
    add("layer-rect-huge-rle", one_layer_doc(((0, 20),), P("H", 1) + b"\0" * 18, rect=(0, 0, 2 ** 31 - 1, 2 ** 31 - 1)),
        "RLE channel in a 2Gi x 2Gi layer: row table read_be_array(height)")
    add("layer-rect-negative", one_layer_doc(((0, 18),), raw16, rect=(4, 4, 0, 0)), "bottom<top, right<left")
    add("layer-300000-raw", one_layer_doc(((0, 18), (1, 18), (2, 18)), raw16 * 3, rect=(0, 0, 300000, 300000)),
        "layer 300000 x 300000 with 16 bytes of raw data per channel")
    # ---- section lengths
    for v in (1, 2):
        big = 0xFFFFFFFFFFFFFFFF if v == 2 else 0xFFFFFFFF
        add(f"lam-length-max-v{v}", document(header(v), b"", b"", P("Q" if v == 2 else "I", big) + b"\0" * 8, None, v))
        add(f"lam-length-smax-v{v}", document(header(v), b"", b"", P("Q" if v == 2 else "I", big >> 1) + b"\0" * 8, None, v))
        li = P("Q" if v == 2 else "I", big) + layer_info_body(0)
        add(f"layerinfo-length-max-v{v}", document(header(v), b"", b"", lam(li, None, b"", v), None, v))
    add("colormode-length-max", header() + P("I", 0xFFFFFFFF) + b"\0" * 16)
    add("resources-length-max", header() + P("I", 0) + P("I", 0xFFFFFFFF) + image_resource(1005, b"\0" * 16))
    add("resource-length-max", document(header(), b"", image_resource(1005, b"\0" * 16, length=0xFFFFFFFF)))
    add("taggedblock-length-max", doc_with_block(b"luni", b"\0" * 8).replace(P("I", 8) + b"\0" * 8, P("I", 0xFFFFFFFF) + b"\0" * 8))
    add("record-extra-length-max", one_layer_doc(((0, 18),), raw16).replace(b"norm\xff\x00\x08\x00", b"norm\xff\x00\x08\x00\xff\xff\xff\xff", 1))
    # ---- counts of 0xFFFFFFFF in descriptor / list / tagged-block / resource structures
    add("descriptor-count-max", doc_with_block(b"artb", P("I", 16) + desc(b"", 0xFFFFFFFF)), "Descriptor count")
    add("descriptor-count-max-items", doc_with_block(b"artb", P("I", 16) + desc(desc_item(b"Clr ", b"long", P("i", 1)) * 3, 0xFFFFFFFF)))
    add("list-count-max", doc_with_block(b"artb", P("I", 16) + desc(desc_item(b"Clr ", b"VlLs", P("I", 0xFFFFFFFF)), 1)), "List count")
    add("list-count-max-items", doc_with_block(b"artb", P("I", 16) + desc(desc_item(b"Clr ", b"VlLs", P("I", 0xFFFFFFFF) + (b"long" + P("i", 7)) * 4), 1)))
    add("unicode-count-max", doc_with_block(b"luni", P("I", 0xFFFFFFFF) + b"\0a\0b"), "read_unicode_string count")
    add("descriptor-name-count-max", doc_with_block(b"artb", P("I", 16) + P("I", 0xFFFFFFFF) + b"\0" * 32))
    add("descriptor-key-length-max", doc_with_block(b"artb", P("I", 16) + P("I", 0) + P("I", 0xFFFFFFFF) + b"null" + b"\0" * 32))
    add("tdta-length-max", doc_with_block(b"artb", P("I", 16) + desc(desc_item(b"Clr ", b"tdta", P("I", 0xFFFFFFFF) + b"abc"), 1)))
    add("metadata-count-max", doc_with_block(b"shmd", P("I", 0xFFFFFFFF)), "MetadataSettings count")
    add("metadata-count-max-one", doc_with_block(b"shmd", P("I", 0xFFFFFFFF) + b"8BIM" + b"mdyn" + b"\0\0\0\0" + lenblock(P("I", 5))))
    add("effects-count-max", doc_with_block(b"lrFX", P("2H", 0, 0xFFFF)), "EffectsLayer count")
    add("annotations-count-max", doc_with_block(b"Anno", P("2HI", 2, 1, 0xFFFFFFFF), where="global"))
    add("annotations-count-max-lengths4", doc_with_block(b"Anno", P("2HI", 2, 1, 0xFFFFFFFF) + P("I", 4) * 64, where="global"),
        "Annotations: items of length 4 consume 4 bytes each and append nothing")
    add("linkedlayers-length-max", doc_with_block(b"lnk2", P("Q", 0xFFFFFFFFFFFFFFFF) + b"liFD" + b"\0" * 16, where="global"))
    add("filtereffects-channels-max", doc_with_block(b"FXid", P("I", 1) + lenblock(pascal(b"u", 1) + P("I", 1) + lenblock(P("4i2I", 0, 0, 4, 4, 8, 0xFFFFFFFF), "Q")), where="global"))
    add("patterns-length-max", doc_with_block(b"Patt", P("I", 0xFFFFFFFF) + P("I", 1) + b"\0" * 32, where="global"))
    add("curves-count-max", doc_with_block(b"curv", b"\0" + P("H", 1) + P("I", 0xFFFFFFFF) + b"\0" * 8))
    add("levels-count-max", doc_with_block(b"levl", P("H", 2) + b"\0" * (29 * 10) + b"Lvls" + P("H", 3) + P("H", 0xFFFF)))
    add("gradientmap-count-max", doc_with_block(b"grdm", P("H", 1) + b"\0\0" + unicode_str("g") + P("H", 0xFFFF)))
    add("vmsk-path-length-max", doc_with_block(b"vmsk", P("2I", 3, 0) + (P("H", 0) + P("H", 0xFFFF) + b"\0" * 22)))
    add("vogk-count-max", doc_with_block(b"vogk", P("2I", 1, 16) + desc(b"", 0xFFFFFFFF)))
    add("urllist-count-max", doc_with_resource(1054, P("I", 0xFFFFFFFF)), "URLList count")
    add("urllist-count-max-one", doc_with_resource(1054, P("I", 0xFFFFFFFF) + b"http" + P("I", 1) + unicode_str("u")))
    add("layerselectionids-count-max", doc_with_resource(1069, P("H", 0xFFFF)))
    add("gridguides-count-max", doc_with_resource(1032, P("4I", 1, 576, 576, 0xFFFFFFFF)), "GridGuidesInfo count")
    add("slices-count-max", doc_with_resource(1050, P("I", 6) + P("4I", 0, 0, 4, 4) + unicode_str("s") + P("I", 0xFFFFFFFF)))
    add("slices-v7-descriptor-count-max", doc_with_resource(1050, P("I", 7) + P("I", 16) + desc(b"", 0xFFFFFFFF)))
    add("pathresource-count-max", doc_with_resource(2000, P("H", 6) + b"\0" * 24 + P("H", 0) + P("H", 0xFFFF) + b"\0" * 22))
    add("thumbnail-sizes-max", doc_with_resource(1036, P("6I2H", 1, 0xFFFFFFFF, 0xFFFFFFFF, 0xFFFFFFFF, 0xFFFFFFFF, 0xFFFFFFFF, 24, 1) + b"\xff\xd8"))
    add("resource-descriptor-count-max", doc_with_resource(1065, P("I", 16) + desc(b"", 0xFFFFFFFF)))
    add("colormode-indexed-short", header(mode=2, channels=1) + lenblock(b"\1" * 100) + P("I", 0) + P("I", 0) + P("H", 0) + b"\0" * 16)
    # ---- unbounded nesting
    for d in (50, 500, 2000):
        add(f"nested-Lr16-depth{d}", document(header(), b"", b"", lam(layer_info(nested_lr16(d)), P("I", 0)), None),
            "layer info inside a layer record's Lr16 block, recursively")
        add(f"nested-Objc-depth{d}", doc_with_block(b"artb", P("I", 16) + nested_objc(d)), "descriptor in descriptor")
        add(f"nested-VlLs-depth{d}", doc_with_block(b"artb", P("I", 16) + nested_vlls(d)), "list in list")
    add("nested-Lr32-depth200-psb", document(header(2), b"", b"", lam(layer_info(nested_lr16(200, 2, b"Lr32"), 2), P("I", 0), b"", 2), None, 2))
    # ---- headers at the extremes with almost no data
    for v in (1, 2):
        add(f"header-300000x300000-d32-c56-v{v}", document(header(v, 56, 300000, 300000, 32, 3), version=v), "valid header, 20 PB of pixels declared")
        add(f"header-300000x300000-d32-c56-v{v}-rle", document(header(v, 56, 300000, 300000, 32, 3), image=P("H", 1) + b"\0" * 64, version=v))
        add(f"header-300000x300000-d8-c3-v{v}-layers", syn_doc(v).replace(header(v), header(v, 3, 300000, 300000, 8, 3), 1))
    add("header-30000x30000-d8-c4", document(header(1, 4, 30000, 30000, 8, 3)), "3.6 GB of pixels declared, 2 bytes of image data")
    add("header-1x300000-d1-bitmap", document(header(1, 1, 300000, 1, 1, 0)))
    add("header-only", header())
    add("header-then-zeros", header() + b"\0" * 64)
    add("header-then-ff", header() + b"\xff" * 64)
    add("empty", b"")
    add("four-zero-bytes", b"\0" * 4)
    # ---- RLE tables that promise more than the data holds
    add("rle-rows-ffff", one_layer_doc(((0, 10),), P("H", 1) + P("4H", 0xFFFF, 0xFFFF, 0xFFFF, 0xFFFF)))
    add("rle-merged-rows-ffff", document(header(), image=P("H", 1) + P("12H", *([0xFFFF] * 12)) + b"\x7f" * 40))
    add("rle-merged-300000-rows", document(header(1, 3, 300000, 4, 8, 3), image=P("H", 1) + b"\0\2" * 64 + RLE_ROW4 * 16))
    # ---- zlib bombs (a 4x4 layer / document expects 16 / 48 bytes)
    for mb in (64, 2048):
        bomb = zlib_bomb(mb)
        for comp in (2, 3):
            c0 = chan(comp, bomb)
            add(f"zipbomb-layer-comp{comp}-{mb}MiB", syn_doc(1, 1, chan0=c0),
                f"layer channel, compression {comp}, {len(bomb)} bytes inflate to {mb} MiB; the layer is 4x4")
        add(f"zipbomb-merged-comp2-{mb}MiB", document(header(), image=P("H", 2) + bomb),
            f"merged image data, compression 2, {len(bomb)} bytes inflate to {mb} MiB; the image is 4x4")
        add(f"zipbomb-merged-comp3-{mb}MiB", syn_doc(1, 1).rsplit(P("H", 0) + b"\x80" * 48, 1)[0] + P("H", 3) + bomb)
    add("zipbomb-layer-comp2-2048MiB-psb-16bit", syn_doc(2, 1, depth=16, chan0=chan(2, zlib_bomb(2048))))
    add("zip-truncated-stream", syn_doc(1, 1, chan0=chan(2, zlib.compress(b"\0" * 16)[:-3])))
    add("zip-short-output", syn_doc(1, 1, chan0=chan(2, zlib.compress(b"\0" * 5))))
    add("zip-garbage", syn_doc(1, 1, chan0=chan(3, b"\x78\x9c" + b"\xff" * 30)))
    # ---- super-linear readers (found by the cost model: Props/C06.lean `slices_not_linear`, repo fix 606e5d1)
    add("slices-speculative-descriptor-300", doc_with_resource(1050, slices_bait(300)),
        "every slice is also the bait of the previous slice's speculative DescriptorBlock.read: the rest of the block is "
        "read and decoded once per slice")
    add("enginedata-tokens-16KB", doc_with_block(b"Txt2", b"/A [ " + b"0 " * 8000 + b"]", where="global"),
        "an engine-data block of 8000 one-byte tokens (the tokenizer copied the rest of the blob once per token)")
    return out


def slices_bait(n):
    """Slices (version 6) with n slices of 69 bytes: slice_id 16 looks like a descriptor version to the PREVIOUS slice,
    group_id 0x7fffffff like the length of that descriptor's name: `fp.read(2 * 0x7fffffff)` = everything that is left"""
    u0 = P("I", 0)
    one = P("3I", 16, 0x7FFFFFFF, 0) + u0 + P("I", 0) + P("4I", 0, 0, 0, 0) + u0 * 4 + b"\0" + u0 + P("2I", 0, 0) + b"\0" * 4
    return P("I", 6) + P("4I", 0, 0, 0, 0) + u0 + P("I", n) + one * n


def big_hostile():
    """-> [(name, bytes, note)]  hostile files too large for the model driver: watchdog only"""
    return [
        ("slices-speculative-descriptor-3000", doc_with_resource(1050, slices_bait(3000)),
         "the Slices resource re-read 3000 times: 311 MB returned by fp.read for 207 KB (known finding C06/open/read-volume/Slices)"),
        ("enginedata-tokens-1400KB", doc_with_block(b"Txt2", b"/A [ " + b"0 " * 700000 + b"]", where="global"),
         "1.4 MB of one-byte engine-data tokens: ~40 s before repo fix 606e5d1 (quadratic), ~5 s after"),
    ]


# ------------------------------------------------------------------------------------------------ header cases
HEADER_FIELDS = {       # field -> (offset, size)
    "signature": (0, 4), "version": (4, 2), "channels": (12, 2), "height": (14, 4), "width": (18, 4), "depth": (22, 2),
    "color_mode": (24, 2)}


def header_cases(valid_modes):
    """-> (invalid, valid): lists of (field, value-name, offset, raw bytes).  Exactly one header field is replaced."""
    inv, val = [], []
    for s in (b"8BPX", b"8bps", b"\0\0\0\0", b"8BIM", b"SPB8", b"8BPS"[::-1], b"\xff\xff\xff\xff", b"8BP\0"):
        if s != b"8BPS":
            inv.append(("signature", s.hex(), 0, s))
    for v in (0, 3, 4, 0x100, 0x101, 0x8001, 0xFFFF):
        inv.append(("version", str(v), 4, P("H", v)))
    for c in (0, 57, 58, 0x100, 0x8000, 0xFFFF):
        inv.append(("channels", str(c), 12, P("H", c)))
    for c in (1, 2, 24, 56):
        val.append(("channels", str(c), 12, P("H", c)))
    for fld, off in (("height", 14), ("width", 18)):
        for x in (0, 300001, 300002, 0x7FFFFFFF, 0x80000000, 0xFFFFFFFF, 0x10000 * 5):
            inv.append((fld, str(x), off, P("I", x)))
        for x in (1, 2, 30000, 30001, 300000):
            val.append((fld, str(x), off, P("I", x)))
    for d in (0, 2, 3, 4, 7, 9, 15, 24, 31, 33, 64, 0x108, 0x800, 0xFFFF):
        inv.append(("depth", str(d), 22, P("H", d)))
    for d in (1, 8, 16, 32):
        val.append(("depth", str(d), 22, P("H", d)))
    for m in range(0, 18):
        (val if m in valid_modes else inv).append(("color_mode", str(m), 24, P("H", m)))
    for m in (0x100, 0x103, 0x8003, 0xFFFF):
        inv.append(("color_mode", str(m), 24, P("H", m)))
    return inv, val


# ------------------------------------------------------------------------------------------------ recipes
def delta(base: bytes, mut: bytes):
    """(prefix length, suffix length, middle) with mut == base[:p] + middle + base[len(base)-s:]"""
    n = min(len(base), len(mut))
    p = 0
    while p < n and base[p] == mut[p]:
        p += 1
    s = 0
    while s < n - p and base[len(base) - 1 - s] == mut[len(mut) - 1 - s]:
        s += 1
    return p, s, mut[p:len(mut) - s]


def apply_delta(base: bytes, p: int, s: int, middle: bytes) -> bytes:
    return base[:p] + middle + (base[len(base) - s:] if s else b"")


# ------------------------------------------------------------------------------------------------ mutation sections
MAXPATS = (("ff", lambda n: b"\xff" * n), ("7fff", lambda n: b"\x7f" + b"\xff" * (n - 1)),
           ("8000", lambda n: b"\x80" + b"\0" * (n - 1)))


def truncations_all(b, stride=1):
    return [(b[:k], f"trunc@{k}") for k in range(0, len(b), stride)]


def truncations_boundaries(rng, sm, k):
    """k structural boundaries (skeleton fields first), each at -1 / 0 / +1"""
    n = len(sm.data)
    skel = sorted({f.off for f in sm.fields if f.label in lc.SKELETON} | {min(n, f.off + f.got) for f in sm.fields if f.label in lc.SKELETON})
    rest = [x for x in sm.boundaries if x not in set(skel)]
    pick = rng.sample(skel, min(len(skel), max(1, (2 * k) // 3)))
    pick += rng.sample(rest, min(len(rest), k - len(pick)))
    out, seen = [], set()
    for x in sorted(pick):
        for d in (-1, 0, 1):
            c = x + d
            if 0 <= c < n and c not in seen:
                seen.add(c)
                out.append((sm.data[:c], f"trunc@{c}(boundary{d:+d})"))
    return out


def skeleton_count_fields(sm):
    """header bytes + every numeric field read by a skeleton reader (lengths, counts, ids, rectangles)"""
    return [f for f in sm.nums if f.label in lc.SKELETON]


def bitflips_header(b):
    return [(lc.mutate_bitflip(b, off, bit, "FileHeader")[0], f"bit@{off}.{bit}(header)") for off in range(min(26, len(b)))
            for bit in range(8)]


def bitflips_fields(b, fields):
    out = []
    for f in fields:
        if f.off < 26:
            continue
        for off in range(f.off, f.off + f.size):
            for bit in range(8):
                out.append((lc.mutate_bitflip(b, off, bit, f.label)[0], f"bit@{off}.{bit}({f.label})"))
    return out


def maxsubst(b, fields):
    out = []
    for f in fields:
        if f.size not in (2, 4, 8):
            continue
        for nm, pat in MAXPATS:
            raw = pat(f.size)
            if b[f.off:f.off + f.size] != raw:
                out.append((b[:f.off] + raw + b[f.off + f.size:], f"max-{nm}@{f.off}/{f.size}({f.label})"))
    return out


def random_strings(rng, n):
    out = []
    hdrs = [header(), header(2), header(1, 4, 16, 16, 8, 4), header(1, 1, 8, 8, 1, 0), header(2, 3, 64, 64, 16, 3)]
    for k in range(n):
        kind = k % 3
        ln = rng.choice([0, 1, 2, 3, 4, 7, 8, 16, 25, 26, 27, 32, 64, 100, 256, 1000, 4096]) if rng.random() < 0.5 else rng.randrange(0, 600)
        body = bytes(rng.getrandbits(8) for _ in range(ln))
        if rng.random() < 0.3 and ln >= 8:
            # sprinkle signatures so that the block readers get past their first check
            body = bytearray(body)
            for _ in range(rng.randrange(1, 4)):
                o = rng.randrange(0, ln - 4)
                body[o:o + 4] = rng.choice([b"8BIM", b"8B64", b"norm", b"Lr16", b"luni", b"\0\0\0\0", b"\0\0\0\x08"])
            body = bytes(body)
        if kind == 0:
            out.append((body, f"random[{ln}]"))
        elif kind == 1:
            out.append((rng.choice(hdrs) + body, f"header+random[{ln}]"))
        else:
            h = rng.choice(hdrs)
            v = struct.unpack(">H", h[4:6])[0]
            out.append((h + P("I", 0) + P("I", 0) + rng.choice([P("Q" if v == 2 else "I", 0), b""]) + body,
                        f"header+empty-sections+random[{ln}]"))
    return out


def engine_data_attacks(sm):
    """same-length replacements of the text engine data of a fixture (the tokenizer is regular-expression based)"""
    b = sm.data
    out = []
    for f in sm.fields:
        if f.got >= 200 and b[f.off:f.off + 4] == b"\n\n<<":
            n = f.got
            for nm, unit in (("open-dicts", b"<<"), ("open-lists", b"["), ("open-string", b"("), ("escapes", b"(\\"),
                             ("slashes", b"/"), ("digits", b"1"), ("minus", b"-"), ("dots", b"."), ("spaces", b" "),
                             ("close-dicts", b">>"), ("bom-strings", b"(\xfe\xff"), ("nested", b"<< /a ")):
                body = (unit * (n // len(unit) + 1))[:n]
                out.append((b[:f.off] + body + b[f.off + n:], f"enginedata-{nm}@{f.off}/{n}"))
            break
    return out


# ------------------------------------------------------------------------------------------------ payload interiors
# Payloads with a tokenizer / parser of their own (text engine data, XMP, ICC, paths, strings ...) are reached only when
# every enclosing length field stays consistent: same-length overwrites of a window or of the tail of the payload.
FILLERS = (("backslashes", b"\\"), ("open-parens", b"("), ("close-parens", b")"), ("open-dicts", b"<<"),
           ("close-dicts", b">>"), ("open-lists", b"["), ("close-lists", b"]"), ("nul", b"\0"), ("ff", b"\xff"),
           ("slashes", b"/"), ("lt", b"<"), ("spaces", b" "), ("newlines", b"\n"), ("digits", b"1"), ("minus", b"-"),
           ("dots", b"."), ("escaped-parens", b"\\)"), ("escapes", b"(\\"), ("names", b"/a "), ("nested", b"<< /a "),
           ("bom-strings", b"(\xfe\xff"), ("e-notation", b"1e"), ("quotes", b'"'), ("amp", b"&#"))
TOKEN_STARTS = ((b"(\xfe\xff", "utf16-string"), (b"(", "string"), (b"<<", "dict"), (b"[", "list"), (b"/", "name"),
                (b"<", "tag"), (b'"', "quote"), (b"\\", "escape"))
PREFIXES = ((b"", "none"), (b"(\xfe\xff", "utf16-string"), (b"(", "string"), (b"<<", "dict"), (b"[", "list"),
            (b"<< /a (\xfe\xff", "dict-utf16-string"), (b"\n\n<<\n\t/a ", "engine-head"), (b"<?xml ", "xml"), (b"/a ", "name"))


def _fill(unit, n):
    return (unit * (n // len(unit) + 1))[:n]


def payload_attacks(b, off, n, rng, n_random=24, full=False):
    """same-length mutants of the payload b[off:off+n] -> [(bytes, why)].
    Deterministic part: behind the first / last occurrence of every token start that the payload itself contains, the
    rest of the payload is overwritten with each filler (the bytes in front stay valid, so the payload's own parser is
    in the middle of a token of that kind when the filler begins).  Random part (rng): anchor x injected prefix x filler
    x window length."""
    P = b[off:off + n]
    out = []
    seen = set()

    def emit(a, new, why):
        new = new[:n - a]
        if not new or P[a:a + len(new)] == new:
            return
        key = (a, new[:64], len(new))
        if key in seen:
            return
        seen.add(key)
        out.append((b[:off + a] + new + b[off + a + len(new):], why))

    anchors = []
    for tok, tn in TOKEN_STARTS:
        i, j = P.find(tok), P.rfind(tok)
        for pos, which in ((i, "first"), (j, "last")):
            if pos >= 0 and pos + len(tok) < n:
                anchors.append((pos + len(tok), f"{which}-{tn}"))
    if not full:
        # quick tier: the token kinds that occur, first and last occurrence, at most 8 anchors
        anchors = anchors[:8]
    for a, an in anchors:
        for fn, unit in FILLERS:
            emit(a, _fill(unit, n - a), f"tail:{fn}@{an}+{a}/{n}")
    plain = [(0, "start"), (n // 2, "middle"), (max(0, n - 64), "last64"), (max(0, n - 1024), "last1024")]
    for a, an in plain:
        for fn, unit in FILLERS[:9] if not full else FILLERS:
            emit(a, _fill(unit, n - a), f"tail:{fn}@{an}+{a}/{n}")
    for _ in range(n_random):
        a = rng.choice([0, rng.randrange(n), rng.randrange(n), max(0, n - rng.choice([16, 64, 256, 4096]))])
        pre, pn = rng.choice(PREFIXES)
        fn, unit = rng.choice(FILLERS)
        ln = rng.choice([n, n, 16, 64, 256, 1024, 4096])
        emit(a, pre + _fill(unit, max(0, min(ln, n - a) - len(pre))), f"window:{pn}+{fn}@{a}+{min(ln, n - a)}/{n}")
    return out


def index_opaque(path):
    """(name, size, [(feature, off, n, label)]) opaque payloads of one fixture (runs in a helper process)"""
    import logging
    logging.disable(logging.CRITICAL)
    try:
        b = path.read_bytes()
        res, sm = lc.trace_parse(b)
        if res[0] != "ok":
            return path.name, len(b), []
        return path.name, len(b), [(repr((f.site, f.ctx)), f.off, f.got, f.label) for f in sm.opaque if f.got >= 24]
    except Exception:  # noqa
        return path.name, 0, []
