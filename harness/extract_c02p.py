"""C02 (payload layer) extractor: the (read format, write format) pairs of every class of `psd_tools.psd`, read from the
AST of the source on every run -> lean/PsdVerif/Generated/C02Formats.lean.

For every class (and for the module-level `read_*` / `write_*` helper functions of a module, as the pseudo class
`<module>.<functions>`):

* `pairs`          (class, formats of the `read_fmt` calls of its reader methods, formats of the `write_fmt` calls of its
                   writer methods), each list in source order. Reader methods: `read`, `frombytes` and every method whose
                   name starts with `read` / `_read`; writer methods likewise with `write`. A format that is a string
                   literal is given as it is; `"%dI" % n` is given with the count replaced by 1 (`1I`: one representative of
                   the repeated field); any other expression is given as `<source text>` (it does not parse as a format, so
                   the class has to be listed by hand in Model/PayloadResaveTables.lean with exactly that text). A local name
                   (`fmt = ...; read_fmt(fmt, fp)`) is replaced by the expression last assigned to it; `self.` / `cls.` are
                   dropped from the text.
                   A reader's fallback (`try: read_fmt("H2x") except IOError: ...; read_fmt("H")`) is one more entry of
                   its list, so such a class is one of the hand-listed asymmetric rows;
* `frames`         (class, framing calls of the readers, framing calls of the writers): `read_length_block` /
                   `write_length_block` with their `fmt=` and `padding=` arguments, `read_pascal_string` /
                   `write_pascal_string` and `read_unicode_string` / `write_unicode_string` with their `padding`, as
                   `<kind> fmt=<..> padding=<..>` (defaults made explicit), in source order.

Props/C02Payload.lean: `read_write_formats_compatible` (every row: the two lists are the same items in the same order, or
the row is one of the hand-listed asymmetric rows), `frames_compatible`.  A `write` that packs a field with another format than `read` unpacks changes a row and breaks the
first theorem.

A source that no longer has the shape read here is not an infrastructure error: what is found is emitted.
"""
from __future__ import annotations

import ast
import re

import core
from extract_payload import _s

PKG = "psd_tools/psd"
SKIP_MODULES = {"__init__"}
READ_RE = re.compile(r"^_?read|^frombytes$")
WRITE_RE = re.compile(r"^_?write|^tobytes$")
DEFAULTS = {  # (fmt default, padding default) of the framing primitives of utils.py
    "read_length_block": ("'I'", "1"), "write_length_block": ("'I'", "1"),
    "read_pascal_string": (None, "2"), "write_pascal_string": (None, "2"),
    "read_unicode_string": (None, "1"), "write_unicode_string": (None, "1"),
}
# positional index of `padding` / `fmt` in the signatures of utils.py
POS = {
    "read_length_block": {"fmt": 1, "padding": 2}, "write_length_block": {"fmt": 2, "padding": 3},
    "read_pascal_string": {"padding": 2}, "write_pascal_string": {"padding": 3},
    "read_unicode_string": {"padding": 1}, "write_unicode_string": {"padding": 2},
}


def _norm(text):
    """source text of an expression, `self.` / `cls.` dropped (the reader is a classmethod, the writer a method)"""
    return re.sub(r"\b(self|cls)\.", "", " ".join(text.split()))


def _assignments(fn):
    """name -> [(line, value node)] for the plain assignments `name = expr` of a function (nested functions included)"""
    out = {}
    for n in ast.walk(fn):
        if isinstance(n, ast.Assign) and len(n.targets) == 1 and isinstance(n.targets[0], ast.Name):
            out.setdefault(n.targets[0].id, []).append((n.lineno, n.value))
    return out


def _resolve(node, assigns, line, depth=0):
    """a local name used as `fmt` / `padding` is replaced by the expression last assigned to it before the call"""
    if isinstance(node, ast.Name) and node.id in assigns and depth < 3:
        before = [(ln, v) for ln, v in assigns[node.id] if ln <= line]
        if before:
            return _resolve(max(before, key=lambda t: t[0])[1], assigns, line, depth + 1)
    return node


def _fmt_text(node):
    if node is None:
        return "<none>"
    if isinstance(node, ast.Constant) and isinstance(node.value, str):
        return node.value
    if isinstance(node, ast.BinOp) and isinstance(node.op, ast.Mod) and isinstance(node.left, ast.Constant) \
            and isinstance(node.left.value, str) and "%d" in node.left.value:
        return node.left.value.replace("%d", "1")
    return "<" + _norm(ast.unparse(node)) + ">"


def _arg(call, name, kind, assigns):
    for k in call.keywords:
        if k.arg == name:
            return _norm(ast.unparse(_resolve(k.value, assigns, call.lineno)))
    i = POS[kind].get(name)
    if i is not None and len(call.args) > i:
        return _norm(ast.unparse(_resolve(call.args[i], assigns, call.lineno)))
    d = DEFAULTS[kind][0 if name == "fmt" else 1]
    return d


def _scan(fns):
    """-> (formats, frames) of the given function nodes, in source order"""
    fm, fr = [], []
    for fn in fns:
        assigns = _assignments(fn)
        for call in (n for n in ast.walk(fn) if isinstance(n, ast.Call)):
            name = getattr(call.func, "id", None) or getattr(call.func, "attr", None)
            pos = (call.lineno, call.col_offset)
            if name == "read_fmt":
                a = call.args[0] if call.args else next((k.value for k in call.keywords if k.arg == "fmt"), None)
                fm.append((pos, _fmt_text(_resolve(a, assigns, call.lineno))))
            elif name == "write_fmt":
                a = call.args[1] if len(call.args) > 1 else next((k.value for k in call.keywords if k.arg == "fmt"), None)
                fm.append((pos, _fmt_text(_resolve(a, assigns, call.lineno))))
            elif name in DEFAULTS:
                kind = name.split("_", 1)[1]
                parts = [kind]
                if "fmt" in POS[name]:
                    parts.append("fmt=" + str(_arg(call, "fmt", name, assigns)))
                parts.append("padding=" + str(_arg(call, "padding", name, assigns)))
                fr.append((pos, " ".join(parts)))
    return [t for _, t in sorted(fm)], [t for _, t in sorted(fr)]


def tables(notes):
    root = core.REPO / "src" / PKG
    pairs, frames = [], []
    files = sorted(root.glob("*.py"))
    if not files:
        notes.append(f"no module found under {root}")
    for f in files:
        mod = f.stem
        if mod in SKIP_MODULES:
            continue
        try:
            tree = ast.parse(f.read_text())
        except Exception as e:  # noqa
            notes.append(f"{mod}: source not parsable ({type(e).__name__})")
            continue
        units = []
        top = [n for n in tree.body if isinstance(n, ast.FunctionDef)]
        if top:
            units.append((mod + ".<functions>", top))
        for c in tree.body:
            if isinstance(c, ast.ClassDef):
                units.append((mod + "." + c.name, [m for m in c.body if isinstance(m, ast.FunctionDef)]))
        for name, fns in units:
            rd = [m for m in fns if READ_RE.match(m.name)]
            wr = [m for m in fns if WRITE_RE.match(m.name)]
            r, rfr = _scan(rd)
            w, wfr = _scan(wr)
            if r or w:
                pairs.append((name, r, w))
            if rfr or wfr:
                frames.append((name, rfr, wfr))
    return pairs, frames


def _ls(xs):
    return "[" + ", ".join(_s(x) for x in xs) + "]"


def gen_formats(ctx):
    notes: list = []
    try:
        pairs, frames = tables(notes)
    except Exception as e:  # noqa
        notes.append(f"format pair extraction failed: {type(e).__name__}: {e}")
        pairs, frames = [("<extractor>", ["<failed>"], [])], []
    P = ["namespace PsdVerif.Generated.C02Formats\n"]
    P.append("/-- (class, formats its readers unpack, formats its writers pack), in source order -/\n"
             "def pairs : List (String × List String × List String) := [\n  "
             + ",\n  ".join(f"({_s(c)}, {_ls(r)}, {_ls(w)})" for c, r, w in pairs) + "\n]\n")
    P.append("/-- (class, framing calls of the readers, framing calls of the writers) -/\n"
             "def frames : List (String × List String × List String) := [\n  "
             + ",\n  ".join(f"({_s(c)}, {_ls(r)}, {_ls(w)})" for c, r, w in frames) + "\n]\n")
    P.append("end PsdVerif.Generated.C02Formats\n")
    for n in notes:
        ctx.notes.append("extract_c02: " + n)
    ctx.write_generated("C02Formats", "".join(P))
    return {"pairs": len(pairs), "frames": len(frames)}


if __name__ == "__main__":
    nt: list = []
    p, fr = tables(nt)
    for row in p:
        print(row)
    for row in fr:
        print(row)
    print(nt)
