"""C02 (payload layer) extractor: the (read format, write format) pairs of every class of `psd_tools.psd`, read from the
AST of the source on every run -> lean/PsdVerif/Generated/C02Formats.lean.

For every class (and for the module-level `read_*` / `write_*` helper functions of a module, as the pseudo class
`<module>.<functions>`):

* `pairs`          (class, formats of the `read_fmt` calls of its reader methods, formats of the `write_fmt` calls of its
                   writer methods), each list in source order. Reader methods: `read`, `frombytes` and every method whose
                   name starts with `read` / `_read`; writer methods likewise with `write`. A format that is a string
                   literal is given as it is; `"%dI" % n` is given with the count replaced by 1 (`1I`: one representative of
                   the repeated field); any other expression is given as `<source text>` (it does not parse as a format, so
                   the class has to be listed by hand in Model/PayloadResaveTables.lean with exactly that text). A local name
                   (`fmt = ...; read_fmt(fmt, fp)`) is replaced by the expression last assigned to it; `self.` / `cls.` are
                   dropped from the text.
                   A reader's fallback (`try: read_fmt("H2x") except IOError: ...; read_fmt("H")`) is one more entry of
                   its list, so such a class is one of the hand-listed asymmetric rows;
* `frames`         (class, framing calls of the readers, framing calls of the writers): `read_length_block` /
                   `write_length_block` with their `fmt=` and `padding=` arguments, `read_pascal_string` /
                   `write_pascal_string` and `read_unicode_string` / `write_unicode_string` with their `padding`, as
                   `<kind> fmt=<..> padding=<..>` (defaults made explicit), in source order.

Props/C02Payload.lean: `read_write_formats_compatible` (every row: the two lists are the same items in the same order, or
the row is one of the hand-listed asymmetric rows), `frames_compatible`.  A `write` that packs a field with another format than `read` unpacks changes a row and breaks the
first theorem.

A source that no longer has the shape read here is not an infrastructure error: what is found is emitted.
"""
from __future__ import annotations

import ast
import re

import core
from extract_payload import _s

PKG = "psd_tools/psd"
SKIP_MODULES = {"__init__"}
READ_RE = re.compile(r"^_?read|^frombytes$")
WRITE_RE = re.compile(r"^_?write|^tobytes$")
DEFAULTS = {  # (fmt default, padding default) of the framing primitives of utils.py
    "read_length_block": ("'I'", "1"), "write_length_block": ("'I'", "1"),
    "read_pascal_string": (None, "2"), "write_pascal_string": (None, "2"),
    "read_unicode_string": (None, "1"), "write_unicode_string": (None, "1"),
}
# positional index of `padding` / `fmt` in the signatures of utils.py
POS = {
    "read_length_block": {"fmt": 1, "padding": 2}, "write_length_block": {"fmt": 2, "padding": 3},
    "read_pascal_string": {"padding": 2}, "write_pascal_string": {"padding": 3},
    "read_unicode_string": {"padding": 1}, "write_unicode_string": {"padding": 2},
}


def _norm(text):
    """source text of an expression, `self.` / `cls.` dropped (the reader is a classmethod, the writer a method)"""
    return re.sub(r"\b(self|cls)\.", "", " ".join(text.split()))


def _assignments(fn):
    """name -> [(line, value node)] for the plain assignments `name = expr` of a function (nested functions included)"""
    out = {}
    for n in ast.walk(fn):
        if isinstance(n, ast.Assign) and len(n.targets) == 1 and isinstance(n.targets[0], ast.Name):
            out.setdefault(n.targets[0].id, []).append((n.lineno, n.value))
    return out


def _resolve(node, assigns, line, depth=0):
    """a local name used as `fmt` / `padding` is replaced by the expression last assigned to it before the call"""
    if isinstance(node, ast.Name) and node.id in assigns and depth < 3:
        before = [(ln, v) for ln, v in assigns[node.id] if ln <= line]
        if before:
            return _resolve(max(before, key=lambda t: t[0])[1], assigns, line, depth + 1)
    return node


def _fmt_text(node):
    if node is None:
        return "<none>"
    if isinstance(node, ast.Constant) and isinstance(node.value, str):
        return node.value
    if isinstance(node, ast.BinOp) and isinstance(node.op, ast.Mod) and isinstance(node.left, ast.Constant) \
            and isinstance(node.left.value, str) and "%d" in node.left.value:
        return node.left.value.replace("%d", "1")
    return "<" + _norm(ast.unparse(node)) + ">"


def _arg(call, name, kind, assigns):
    for k in call.keywords:
        if k.arg == name:
            return _norm(ast.unparse(_resolve(k.value, assigns, call.lineno)))
    i = POS[kind].get(name)
    if i is not None and len(call.args) > i:
        return _norm(ast.unparse(_resolve(call.args[i], assigns, call.lineno)))
    d = DEFAULTS[kind][0 if name == "fmt" else 1]
    return d


def _scan(fns):
    """-> (formats, frames) of the given function nodes, in source order"""
    fm, fr = [], []
    for fn in fns:
        assigns = _assignments(fn)
        for call in (n for n in ast.walk(fn) if isinstance(n, ast.Call)):
            name = getattr(call.func, "id", None) or getattr(call.func, "attr", None)
            pos = (call.lineno, call.col_offset)
            if name == "read_fmt":
                a = call.args[0] if call.args else next((k.value for k in call.keywords if k.arg == "fmt"), None)
                fm.append((pos, _fmt_text(_resolve(a, assigns, call.lineno))))
            elif name == "write_fmt":
                a = call.args[1] if len(call.args) > 1 else next((k.value for k in call.keywords if k.arg == "fmt"), None)
                fm.append((pos, _fmt_text(_resolve(a, assigns, call.lineno))))
            elif name in DEFAULTS:
                kind = name.split("_", 1)[1]
                parts = [kind]
                if "fmt" in POS[name]:
                    parts.append("fmt=" + str(_arg(call, "fmt", name, assigns)))
                parts.append("padding=" + str(_arg(call, "padding", name, assigns)))
                fr.append((pos, " ".join(parts)))
    return [t for _, t in sorted(fm)], [t for _, t in sorted(fr)]


def tables(notes):
    root = core.REPO / "src" / PKG
    pairs, frames = [], []
    files = sorted(root.glob("*.py"))
    if not files:
        notes.append(f"no module found under {root}")
    for f in files:
        mod = f.stem
        if mod in SKIP_MODULES:
            continue
        try:
            tree = ast.parse(f.read_text())
        except Exception as e:  # noqa
            notes.append(f"{mod}: source not parsable ({type(e).__name__})")
            continue
        units = []
        top = [n for n in tree.body if isinstance(n, ast.FunctionDef)]
        if top:
            units.append((mod + ".<functions>", top))
        for c in tree.body:
            if isinstance(c, ast.ClassDef):
                units.append((mod + "." + c.name, [m for m in c.body if isinstance(m, ast.FunctionDef)]))
        for name, fns in units:
            rd = [m for m in fns if READ_RE.match(m.name)]
            wr = [m for m in fns if WRITE_RE.match(m.name)]
            r, rfr = _scan(rd)
            w, wfr = _scan(wr)
            if r or w:
                pairs.append((name, r, w))
            if rfr or wfr:
                frames.append((name, rfr, wfr))
    return pairs, frames


def _ls(xs):
    return "[" + ", ".join(_s(x) for x in xs) + "]"


# ---- the tests that decide whether an OPTIONAL part is read / written -------------------------------------------------
def _has_io(nodes, kind):
    for b in nodes:
        for n in ast.walk(b):
            if isinstance(n, ast.Call):
                nm = getattr(n.func, "id", None) or getattr(n.func, "attr", None) or ""
                if kind == "r" and (nm.startswith("read") or nm == "frombytes"):
                    return True
                if kind == "w" and (nm.startswith("write") or nm == "tobytes"):
                    return True
    return False


def _class_fields(cls):
    """names bound in the class body (attr.ib attributes)"""
    out = set()
    for st in cls.body:
        if isinstance(st, ast.Assign):
            out |= {t.id for t in st.targets if isinstance(t, ast.Name)}
        elif isinstance(st, ast.AnnAssign) and isinstance(st.target, ast.Name):
            out.add(st.target.id)
    return out


def _atoms(test):
    """the atoms of a test (operands of and / or / not), `X is not None` and `X is None` reduced to `X`"""
    if isinstance(test, ast.BoolOp):
        return [a for v in test.values for a in _atoms(v)]
    if isinstance(test, ast.UnaryOp) and isinstance(test.op, ast.Not):
        return _atoms(test.operand)
    if isinstance(test, ast.Compare) and len(test.ops) == 1 and isinstance(test.ops[0], (ast.Is, ast.IsNot)) \
            and isinstance(test.comparators[0], ast.Constant) and test.comparators[0].value is None:
        return _atoms(test.left)
    return [test]


def _root(node):
    while isinstance(node, (ast.Attribute, ast.Subscript)):
        node = node.value
    if isinstance(node, ast.Call):
        return None
    return node.id if isinstance(node, ast.Name) else None


def _field_tests(fns, kind, fields):
    """In source order, the atoms of every `if` / `while` / conditional-expression test that guards a read (kind 'r') or a
    write ('w') and that speaks about the STORED FIELDS of the class only (`flags.parameters_applied`, `version >= 2`,
    `real_flags`): every name in the atom is a field of the class, `self.`/`cls.` dropped. Tests on what is left in the
    stream (`is_readable`, `length >= 36`) or on locals are not field tests."""
    out = []
    for fn in fns:
        local_alias = {}
        for n in ast.walk(fn):
            if isinstance(n, (ast.If, ast.While)):
                guarded = _has_io(n.body, kind) or (isinstance(n, ast.If) and _has_io(n.orelse, kind))
                test = n.test
            elif isinstance(n, ast.IfExp):
                guarded = _has_io([n.body], kind) or _has_io([n.orelse], kind)
                test = n.test
            else:
                continue
            if not guarded:
                continue
            for a in _atoms(test):
                try:
                    a = ast.parse(_norm(ast.unparse(a)), mode="eval").body      # `self.` / `cls.` dropped
                except SyntaxError:
                    continue
                names = {x.id for x in ast.walk(a) if isinstance(x, ast.Name)} - {"self", "cls"}
                consts = {x.id for x in ast.walk(a) if isinstance(x, ast.Name) and x.id[:1].isupper()}
                if not names or not (names - consts) <= fields:
                    continue
                if any(isinstance(x, ast.Call) for x in ast.walk(a)):
                    continue
                out.append(((n.lineno, n.col_offset), _norm(ast.unparse(a))))
    seen, res = set(), []
    for _, t in sorted(out):
        if t not in seen:
            seen.add(t)
            res.append(t)
    return res


def guard_tables(notes):
    root = core.REPO / "src" / PKG
    rows = []
    for f in sorted(root.glob("*.py")):
        if f.stem in SKIP_MODULES:
            continue
        try:
            tree = ast.parse(f.read_text())
        except Exception as e:  # noqa
            notes.append(f"{f.stem}: source not parsable ({type(e).__name__})")
            continue
        for c in tree.body:
            if not isinstance(c, ast.ClassDef):
                continue
            fns = [m for m in c.body if isinstance(m, ast.FunctionDef)]
            fields = _class_fields(c)
            r = _field_tests([m for m in fns if READ_RE.match(m.name)], "r", fields)
            w = _field_tests([m for m in fns if WRITE_RE.match(m.name)], "w", fields)
            if r or w:
                rows.append((f.stem + "." + c.name, r, w))
    return rows


def gen_guards(ctx):
    notes: list = []
    try:
        rows = guard_tables(notes)
    except Exception as e:  # noqa
        notes.append(f"guard extraction failed: {type(e).__name__}: {e}")
        rows = [("<extractor>", ["<failed>"], [])]
    P = ["namespace PsdVerif.Generated.C02Guards\n",
         "/-- (class, field tests that guard a READ of an optional part, field tests that guard a WRITE), atoms of the\n"
         "`if`/`while`/conditional tests of the reader / writer methods that mention stored fields of the class only;\n"
         "`X is (not) None` is `X`; `self.`/`cls.` dropped; source order, duplicates removed -/\n"
         "def rows : List (String × List String × List String) := [\n  "
         + ",\n  ".join(f"({_s(c)}, {_ls(r)}, {_ls(w)})" for c, r, w in rows) + "\n]\n",
         "end PsdVerif.Generated.C02Guards\n"]
    for n in notes:
        ctx.notes.append("extract_c02 guards: " + n)
    ctx.write_generated("C02Guards", "".join(P))
    return {"rows": len(rows), "table": rows}


def gen_formats(ctx):
    notes: list = []
    try:
        pairs, frames = tables(notes)
    except Exception as e:  # noqa
        notes.append(f"format pair extraction failed: {type(e).__name__}: {e}")
        pairs, frames = [("<extractor>", ["<failed>"], [])], []
    P = ["namespace PsdVerif.Generated.C02Formats\n"]
    P.append("/-- (class, formats its readers unpack, formats its writers pack), in source order -/\n"
             "def pairs : List (String × List String × List String) := [\n  "
             + ",\n  ".join(f"({_s(c)}, {_ls(r)}, {_ls(w)})" for c, r, w in pairs) + "\n]\n")
    P.append("/-- (class, framing calls of the readers, framing calls of the writers) -/\n"
             "def frames : List (String × List String × List String) := [\n  "
             + ",\n  ".join(f"({_s(c)}, {_ls(r)}, {_ls(w)})" for c, r, w in frames) + "\n]\n")
    P.append("end PsdVerif.Generated.C02Formats\n")
    for n in notes:
        ctx.notes.append("extract_c02: " + n)
    ctx.write_generated("C02Formats", "".join(P))
    return {"pairs": len(pairs), "frames": len(frames)}


if __name__ == "__main__":
    nt: list = []
    p, fr = tables(nt)
    for row in p:
        print(row)
    for row in fr:
        print(row)
    print(nt)
