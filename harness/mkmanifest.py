"""Regenerates MANIFEST.json from the table below (run by hand after adding a check)."""
import json
from pathlib import Path

V = Path(__file__).resolve().parent.parent
PROPS = [json.loads(l) for l in (V / "properties.jsonl").read_text().splitlines() if l.strip()]

# harness/manifest.d/Cxx.json: {"technique":…, "level_text":…, "level_note":…, "design_ref":…}
CHECKS = {}
for f in sorted((V / "harness" / "manifest.d").glob("C*.json")):
    d = json.loads(f.read_text())
    CHECKS[f.stem] = (d["technique"], d["level_text"], d["level_note"], d.get("design_ref", "DESIGN.md section 5, " + f.stem))

NOT_YET = "not claimed yet: the model and check for this property are not built at this commit (see DESIGN.md section 9 for the staging order)"


def main():
    checks = []
    for p in PROPS:
        pid = p["id"]
        if pid not in CHECKS:
            continue
        tech, text, note, ref = CHECKS[pid]
        checks.append({
            "property_id": pid,
            "quick_cmd": f"./check {pid} --tier quick",
            "thorough_cmd": f"./check {pid} --tier thorough",
            "evidence_file": f"evidence/{pid}.json",
            "replay_cmd_template": f"./check {pid} --replay {{path}}",
            "engine": "lean4-proof+correspondence",
            "level_claimed": {"category": "proof", "text": text, "design_ref": ref},
            "level_note": note,
            "technique": tech,
        })
    m = {
        "version": 1,
        "setup_cmd": "cd lean && lake build",
        "hooks": {
            "guard": "PSD_TOOLS_VERIF",
            "enable": "no source hooks are needed: the harness wraps library functions from outside; checks set PSD_TOOLS_VERIF=1 for uniformity",
            "baseline_off_cmd": "cd /repo && /venv/bin/python -m pytest -ra -q -p no:cacheprovider --timeout=900 --continue-on-collection-errors",
            "source_commits": [],
            "add_only": True,
        },
        "engines": [{
            "name": "lean4-proof+correspondence",
            "path": "lean/ (models, theorems, driver) + harness/ (extractor, generators, correspondence, search)",
            "serves_properties": sorted(CHECKS),
            "kind_free_text": "Lean 4 theorems about executable models; models tied to /repo by regenerated tables and a differential correspondence check; failing-input search on the real code",
        }],
        "checks": checks,
        "notes": "Entry point ./check <id> [--tier quick|thorough] [--replay file]; exit 0 held, 1 violation, 2 infrastructure. See DESIGN.md.",
        "not_applicable": [{"property_id": p["id"], "reason": NOT_YET} for p in PROPS if p["id"] not in CHECKS],
    }
    (V / "MANIFEST.json").write_text(json.dumps(m, indent=1) + "\n")
    # known_findings.json is assembled from findings.d/Cxx.json (one list of entries per property)
    fs = []
    for f in sorted((V / "findings.d").glob("C*.json")):
        fs += json.loads(f.read_text())
    (V / "known_findings.json").write_text(json.dumps({
        "comment": "Genuine defects of psd-tools found by the checks (assembled from findings.d/ by harness/mkmanifest.py; never written at "
                   "run time). status=known: still present, reported as KNOWN-FINDING (exit 0). status=fixed: repaired by the named "
                   "commit in /repo; a fixed entry suppresses nothing.",
        "findings": fs}, indent=1) + "\n")


if __name__ == "__main__":
    main()
