"""Regenerates MANIFEST.json from the table below (run by hand after adding a check)."""
import json
from pathlib import Path

V = Path(__file__).resolve().parent.parent
PROPS = [json.loads(l) for l in (V / "properties.jsonl").read_text().splitlines() if l.strip()]

# id -> (technique, level text, level note, design ref)
CHECKS = {
    "C05": (
        "Lean 4 theorems about a loop-for-loop model of rle.py/_rle.pyx + differential correspondence (model vs rle.py vs emulated _rle.pyx)",
        "Machine-checked proof (Lean 4 kernel) for every input of: encoder output expands to the input under an independent "
        "PackBits decoder, round trip through the library decoder, no 0x80 header, decoder returns exactly `size` bytes or "
        "ValueError, Cython decoder never touches memory out of bounds, both implementations agree. The model is tied to the "
        "source on every run: MAX_LEN is regenerated from both files and the model is executed against rle.py and an emulation "
        "of the current _rle.pyx on exhaustive small domains.",
        "Trusted: Lean kernel (axioms propext/Classical.choice/Quot.sound only), the transliteration in Model/Rle.lean (checked by "
        "correspondence, not proved), harness/pyx_emul.py (C semantics of the .pyx; Cython is not installed), the PackBits spec "
        "as transcribed. The prebuilt .so is not exercised once _rle.pyx differs from the text it was built from.",
        "DESIGN.md section 5, C05",
    ),
}

NOT_YET = "not claimed yet: the model and check for this property are not built at this commit (see DESIGN.md section 9 for the staging order)"


def main():
    checks = []
    for p in PROPS:
        pid = p["id"]
        if pid not in CHECKS:
            continue
        tech, text, note, ref = CHECKS[pid]
        checks.append({
            "property_id": pid,
            "quick_cmd": f"./check {pid} --tier quick",
            "thorough_cmd": f"./check {pid} --tier thorough",
            "evidence_file": f"evidence/{pid}.json",
            "replay_cmd_template": f"./check {pid} --replay {{path}}",
            "engine": "lean4-proof+correspondence",
            "level_claimed": {"category": "proof", "text": text, "design_ref": ref},
            "level_note": note,
            "technique": tech,
        })
    m = {
        "version": 1,
        "setup_cmd": "cd lean && lake build",
        "hooks": {
            "guard": "PSD_TOOLS_VERIF",
            "enable": "no source hooks are needed: the harness wraps library functions from outside; checks set PSD_TOOLS_VERIF=1 for uniformity",
            "baseline_off_cmd": "cd /repo && /venv/bin/python -m pytest -ra -q -p no:cacheprovider --timeout=900 --continue-on-collection-errors",
            "source_commits": [],
            "add_only": True,
        },
        "engines": [{
            "name": "lean4-proof+correspondence",
            "path": "lean/ (models, theorems, driver) + harness/ (extractor, generators, correspondence, search)",
            "serves_properties": sorted(CHECKS),
            "kind_free_text": "Lean 4 theorems about executable models; models tied to /repo by regenerated tables and a differential correspondence check; failing-input search on the real code",
        }],
        "checks": checks,
        "notes": "Entry point ./check <id> [--tier quick|thorough] [--replay file]; exit 0 held, 1 violation, 2 infrastructure. See DESIGN.md.",
        "not_applicable": [{"property_id": p["id"], "reason": NOT_YET} for p in PROPS if p["id"] not in CHECKS],
    }
    (V / "MANIFEST.json").write_text(json.dumps(m, indent=1) + "\n")


if __name__ == "__main__":
    main()
