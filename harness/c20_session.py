"""Run a scripted session (list of [op, arg]) in THIS interpreter and print JSON results.

usage: c20_session.py <repo> <json: [[op, arg], ...]>  (reads the JSON from stdin when the 2nd arg is '-')
Output: {"results": [...one string per step...], "changed_cells": [...], "error": null}
Used by harness/props/C20.py both for "alone in a fresh interpreter" and for
"after other sessions in the same interpreter".
"""
import hashlib
import io
import json
import logging
import os
import sys

repo = sys.argv[1]
sys.path.insert(0, os.path.join(repo, "src"))
logging.disable(logging.CRITICAL)
import warnings  # noqa: E402

warnings.simplefilter("ignore")


def sha(b) -> str:
    return hashlib.sha1(bytes(b)).hexdigest()[:16]


def snapshot():
    """repr-hash of every mutable container reachable as a module global or class attribute of psd_tools."""
    out = {}
    for name, mod in sorted(sys.modules.items()):
        if not (name == "psd_tools" or name.startswith("psd_tools.")) or mod is None:
            continue
        for k, v in sorted(vars(mod).items()):
            if k.startswith("__"):
                continue
            if isinstance(v, (dict, list, set, bytearray)):
                out[f"{name}:{k}"] = _h(v)
            elif isinstance(v, type) and getattr(v, "__module__", None) == name:
                for ck, cv in sorted(vars(v).items()):
                    if ck.startswith("__"):
                        continue
                    if isinstance(cv, (dict, list, set, bytearray)):
                        out[f"{name}:{v.__name__}.{ck}"] = _h(cv)
    return out


def _h(v):
    try:
        if isinstance(v, dict):
            s = repr(sorted((repr(k), repr(x)) for k, x in v.items()))
        elif isinstance(v, set):
            s = repr(sorted(repr(x) for x in v))
        else:
            s = repr(v)
    except Exception as e:  # noqa
        s = "unreprable:" + type(e).__name__
    return hashlib.sha1(s.encode("utf-8", "replace")).hexdigest()[:12]


def describe(psd):
    rows = []

    def walk(layer, depth):
        for l in layer:
            rows.append((depth, l.kind, l.name, l.visible, l.opacity, str(l.blend_mode), tuple(l.bbox)))
            if l.is_group():
                walk(l, depth + 1)

    walk(psd, 0)
    return repr((psd.width, psd.height, psd.depth, str(psd.color_mode), rows))


def step(op, arg):
    from psd_tools import PSDImage
    from psd_tools.psd import PSD

    if op == "lowlevel":
        with open(arg, "rb") as f:
            p = PSD.read(f)
        b = io.BytesIO()
        p.write(b)
        return sha(b.getvalue())
    if op == "structure":
        with open(arg, "rb") as f:
            p = PSD.read(f)
        import re
        # object addresses in default reprs are not part of the structure
        return sha(re.sub(r" at 0x[0-9a-fA-F]+", "", repr(p)).encode("utf-8", "replace"))
    if op == "open_save":
        psd = PSDImage.open(arg)
        b = io.BytesIO()
        psd.save(b)
        return sha(b.getvalue())
    if op == "describe":
        return sha(describe(PSDImage.open(arg)).encode())
    if op == "composite":
        psd = PSDImage.open(arg)
        if psd.width * psd.height > 400 * 400:
            return "skipped-large"
        import numpy as np
        from psd_tools.composite import composite
        c, s, a = composite(psd, force=True)
        return sha(np.ascontiguousarray(c).tobytes() + np.ascontiguousarray(a).tobytes())
    if op == "edit_save":
        psd = PSDImage.open(arg)
        for i, l in enumerate(psd.descendants()):
            if i == 0:
                l.name = "renamed"
                l.visible = not l.visible
        b = io.BytesIO()
        psd.save(b)
        return sha(b.getvalue())
    if op == "struct_save":
        from psd_tools.api.layers import Group
        psd = PSDImage.open(arg)
        Group.new("added", parent=psd)
        b = io.BytesIO()
        psd.save(b)
        return sha(b.getvalue())
    if op == "preview":
        psd = PSDImage.open(arg)
        return repr((psd.has_preview(), sorted(str(k) for k in psd.image_resources.keys())))
    if op == "pattern_edit_composite":
        # edit the first embedded pattern (invert its planes), then render: an edit of THIS document only
        import numpy as np
        from psd_tools.composite import composite
        from psd_tools.constants import Tag
        psd = PSDImage.open(arg)
        done = False
        for key in (Tag.PATTERNS1, Tag.PATTERNS2, Tag.PATTERNS3):
            pats = psd.tagged_blocks.get_data(key) if psd.tagged_blocks else None
            for pat in (pats or []):
                for ch in pat.data.channels:
                    if ch.is_written and ch.data:
                        raw = ch.get_data()
                        ch.set_data((ch.rectangle[3], ch.rectangle[2]), bytes(255 - x for x in raw), ch.pixel_depth, ch.compression)
                        done = True
                if done:
                    break
            if done:
                break
        if psd.width * psd.height > 400 * 400:
            return "skipped-large"
        c, s_, a = composite(psd, force=True)
        return sha(np.ascontiguousarray(c).tobytes()) + (":edited" if done else ":no-pattern")
    if op == "build":
        from PIL import Image
        from psd_tools.api.layers import Group, PixelLayer
        parts = str(arg).split(":")
        w = int(parts[0])
        depth = int(parts[1]) if len(parts) > 1 else 8
        psd = PSDImage.new("RGB", (w, w), depth=depth)
        im = Image.new("RGB", (w, w), (0, 0, 30))          # two all-zero planes: empty RLE rows
        layer = PixelLayer.frompil(im, psd, "L1")
        psd.append(layer)
        g = Group.new("G", parent=psd)
        b = io.BytesIO()
        psd.save(b)
        return sha(b.getvalue())
    if op == "desc_read":      # arg: hex of a Descriptor body
        from psd_tools.psd.descriptor import Descriptor
        d = Descriptor.frombytes(bytes.fromhex(arg))
        return sha(d.tobytes())
    if op == "desc_build":     # arg: hex of a 4-byte key; build a descriptor holding it and write it
        from psd_tools.psd.descriptor import Descriptor, Integer
        d = Descriptor(name="", classID=b"null")
        d[bytes.fromhex(arg)] = Integer(7)
        return d.tobytes().hex()
    if op == "desc_read_trunc":
        from psd_tools.psd.descriptor import Descriptor
        try:
            Descriptor.frombytes(bytes.fromhex(arg))
            return "accepted"
        except Exception as e:  # noqa
            return "rejected:" + type(e).__name__
    raise ValueError("unknown op " + op)


def main():
    script = json.loads(sys.stdin.read() if sys.argv[2] == "-" else sys.argv[2])
    import psd_tools  # noqa
    import psd_tools.api.psd_image, psd_tools.composite, psd_tools.psd.descriptor  # noqa
    import psd_tools.api.effects, psd_tools.api.adjustments, psd_tools.api.shape, psd_tools.api.smart_object  # noqa
    before = snapshot()
    results = []
    for op, arg in script:
        try:
            results.append(step(op, arg))
        except Exception as e:  # noqa
            results.append("EXC:" + type(e).__name__)
    after = snapshot()
    changed = sorted(k for k in set(before) | set(after) if before.get(k) != after.get(k))
    print(json.dumps({"results": results, "changed_cells": changed}))


if __name__ == "__main__":
    main()
