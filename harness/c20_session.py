"""Run a scripted session (list of [op, arg]) in THIS interpreter and print JSON results.

usage: c20_session.py <repo> <json: [[op, arg], ...]>  (reads the JSON from stdin when the 2nd arg is '-')
Output: {"results": [...one string per step...], "changed_cells": [...], "error": null}
Used by harness/props/C20.py both for "alone in a fresh interpreter" and for
"after other sessions in the same interpreter".
"""
import hashlib
import io
import json
import logging
import os
import sys

repo = sys.argv[1]
sys.path.insert(0, os.path.join(repo, "src"))
logging.disable(logging.CRITICAL)
import warnings  # noqa: E402

warnings.simplefilter("ignore")


def sha(b) -> str:
    return hashlib.sha1(bytes(b)).hexdigest()[:16]


_CONT = (dict, list, set, bytearray)
_SCAL = (int, float, bool, str, bytes, type(None), tuple, frozenset, complex)


def snapshot():
    """hash of every piece of process-wide state we can see:
    * every module global / class attribute of psd_tools that is a container, a plain value (counters, flags,
      cached values) or a plain object with a __dict__; the identity of module-level functions and of methods
      (monkey-patching / rebinding);
    * the process-wide switches of the standard library and of the third-party modules psd_tools uses
      (`ext:` keys, see ext_snapshot)."""
    out = {}
    for name, mod in sorted(sys.modules.items()):
        if not (name == "psd_tools" or name.startswith("psd_tools.")) or mod is None:
            continue
        out["mod:" + name] = "present"
        for k, v in sorted(vars(mod).items()):
            if k.startswith("__"):
                continue
            if isinstance(v, _CONT) or isinstance(v, _SCAL):
                out[f"{name}:{k}"] = _h(v)
            elif isinstance(v, type) and getattr(v, "__module__", None) == name:
                for ck, cv in sorted(vars(v).items()):
                    if ck.startswith("__") or ck in ("_abc_impl",):
                        continue
                    if isinstance(cv, _CONT) or (isinstance(cv, _SCAL) and not isinstance(cv, str)):
                        out[f"{name}:{v.__name__}.{ck}"] = _h(cv)
                    elif callable(cv) or isinstance(cv, (property, classmethod, staticmethod)):
                        out[f"{name}:{v.__name__}.{ck}"] = "id%x" % id(cv)
                    elif not isinstance(cv, str):
                        dg = _obj_digest(cv)
                        if dg is not None:
                            out[f"{name}:{v.__name__}.{ck}"] = dg
            elif isinstance(v, type(sys)) or isinstance(v, type):
                continue                              # imported modules / classes: covered where they are defined
            elif callable(v) and getattr(v, "__module__", None) == name:
                out[f"{name}:{k}"] = "id%x" % id(v)
            elif hasattr(v, "__dict__") and not type(v).__module__.startswith("logging"):
                try:
                    out[f"{name}:{k}"] = _h(sorted((a, repr(b)) for a, b in vars(v).items())) + (_obj_digest(v) or "")
                except Exception:  # noqa
                    pass
            else:
                # an object of a type we know nothing about (a random generator, a compiled cache, an instance of an
                # extension type): its state through pickle / __getstate__ / getstate() / get_state()
                dg = _obj_digest(v)
                if dg is not None:
                    out[f"{name}:{k}"] = dg
    out.update(ext_snapshot())
    return out


_STATELESS_TYPES = ("typing", "re", "logging", "enum", "types", "abc", "functools", "_thread", "threading")


def _obj_digest(v):
    """state of an object of unknown type, or None when it has none we can read"""
    import enum
    import pickle
    t = type(v)
    if t.__module__.split(".")[0] in _STATELESS_TYPES or isinstance(v, (enum.Enum, type, type(sys))) or v is None:
        return None
    if t.__name__ in ("member_descriptor", "getset_descriptor", "wrapper_descriptor", "method_descriptor", "Attribute"):
        return None
    for how in ("pickle", "__getstate__", "getstate", "get_state"):
        try:
            if how == "pickle":
                raw = pickle.dumps(v, protocol=4)
            else:
                st = getattr(v, how)()
                if st is None:
                    continue
                raw = pickle.dumps(st, protocol=4)
            return "st" + hashlib.sha1(raw).hexdigest()[:12]
        except Exception:  # noqa
            continue
    return None


def ext_snapshot():
    """process-wide switches that belong to somebody else"""
    import decimal
    import gc
    import locale
    import random
    out = {}

    def put(k, fn):
        try:
            out["ext:" + k] = _h(fn())
        except Exception as e:  # noqa
            out["ext:" + k] = "unreadable:" + type(e).__name__

    try:
        import attr
        put("attr.validators.disabled", lambda: attr.validators.get_disabled())
    except ImportError:
        pass
    try:
        import numpy as np
        put("numpy.errstate", lambda: sorted(np.geterr().items()))
        put("numpy.printoptions", lambda: sorted((k, repr(v)) for k, v in np.get_printoptions().items()))
        put("numpy.random.state", lambda: hashlib.sha1(repr(np.random.get_state()).encode()).hexdigest())
    except ImportError:
        pass
    put("warnings.filters", lambda: [(a, getattr(m, "pattern", m), c.__name__, getattr(mo, "pattern", mo), ln)
                                     for a, m, c, mo, ln in warnings.filters])
    put("warnings.showwarning", lambda: "id%x" % id(warnings.showwarning))
    put("logging.disable", lambda: logging.root.manager.disable)
    put("logging.root", lambda: (logging.root.level, len(logging.root.handlers), logging.raiseExceptions,
                                 "id%x" % id(logging.getLoggerClass())))
    put("logging.psd_tools_loggers", lambda: sorted(
        (n, l.level, l.disabled, l.propagate, len(l.handlers)) for n, l in logging.root.manager.loggerDict.items()
        if isinstance(l, logging.Logger) and n.startswith("psd_tools") and n != "psd_tools.__main__"))
    put("sys.recursionlimit", sys.getrecursionlimit)
    put("sys.switchinterval", sys.getswitchinterval)
    put("sys.path", lambda: list(sys.path))
    put("sys.hooks", lambda: ("id%x" % id(sys.excepthook), repr(sys.gettrace()), repr(sys.getprofile()),
                              "id%x" % id(sys.stdout), "id%x" % id(sys.stderr), "id%x" % id(sys.stdin)))
    put("os.environ", lambda: sorted(os.environ.items()))
    put("os.cwd", os.getcwd)
    put("locale", lambda: locale.setlocale(locale.LC_ALL, None))
    put("decimal.context", lambda: repr(decimal.getcontext()))
    put("gc", lambda: (gc.isenabled(), gc.get_threshold()))
    put("random.state", lambda: hashlib.sha1(repr(random.getstate()).encode()).hexdigest())
    put("builtins", lambda: sorted((k, "id%x" % id(v)) for k, v in vars(__import__("builtins")).items() if k != "_"))
    try:
        from PIL import Image, ImageFile
        put("PIL.Image.MAX_IMAGE_PIXELS", lambda: Image.MAX_IMAGE_PIXELS)
        put("PIL.ImageFile.LOAD_TRUNCATED_IMAGES", lambda: ImageFile.LOAD_TRUNCATED_IMAGES)
        put("PIL.ImageFile.MAXBLOCK", lambda: ImageFile.MAXBLOCK)
    except ImportError:
        pass
    return out


def diff(before, after):
    """keys whose value changed; a key that appears with a lazily imported module is not a change"""
    ch = []
    for k in sorted(set(before) | set(after)):
        if k.startswith("mod:"):
            continue
        if before.get(k) != after.get(k):
            m = k.split(":", 1)[0]
            if not k.startswith("ext:") and ("mod:" + m) not in before:
                continue
            ch.append(k)
    return ch


def _h(v):
    try:
        if isinstance(v, dict):
            s = repr(sorted((repr(k), repr(x)) for k, x in v.items()))
        elif isinstance(v, (set, frozenset)):
            s = repr(sorted(repr(x) for x in v))
        else:
            s = repr(v)
    except Exception as e:  # noqa
        s = "unreprable:" + type(e).__name__
    return hashlib.sha1(s.encode("utf-8", "replace")).hexdigest()[:12]


def describe(psd):
    rows = []

    def walk(layer, depth):
        for l in layer:
            rows.append((depth, l.kind, l.name, l.visible, l.opacity, str(l.blend_mode), tuple(l.bbox)))
            if l.is_group():
                walk(l, depth + 1)

    walk(psd, 0)
    return repr((psd.width, psd.height, psd.depth, str(psd.color_mode), rows))


def step(op, arg):
    from psd_tools import PSDImage
    from psd_tools.psd import PSD

    if op == "lowlevel":
        with open(arg, "rb") as f:
            p = PSD.read(f)
        b = io.BytesIO()
        p.write(b)
        return sha(b.getvalue())
    if op == "structure":
        with open(arg, "rb") as f:
            p = PSD.read(f)
        import re
        # object addresses in default reprs are not part of the structure
        return sha(re.sub(r" at 0x[0-9a-fA-F]+", "", repr(p)).encode("utf-8", "replace"))
    if op == "open_save":
        psd = PSDImage.open(arg)
        b = io.BytesIO()
        psd.save(b)
        return sha(b.getvalue())
    if op == "describe":
        return sha(describe(PSDImage.open(arg)).encode())
    if op == "composite":
        psd = PSDImage.open(arg)
        if psd.width * psd.height > 400 * 400:
            return "skipped-large"
        import numpy as np
        from psd_tools.composite import composite
        c, s, a = composite(psd, force=True)
        return sha(np.ascontiguousarray(c).tobytes() + np.ascontiguousarray(a).tobytes())
    if op == "edit_save":
        psd = PSDImage.open(arg)
        for i, l in enumerate(psd.descendants()):
            if i == 0:
                l.name = "renamed"
                l.visible = not l.visible
        b = io.BytesIO()
        psd.save(b)
        return sha(b.getvalue())
    if op == "struct_save":
        from psd_tools.api.layers import Group
        psd = PSDImage.open(arg)
        Group.new("added", parent=psd)
        b = io.BytesIO()
        psd.save(b)
        return sha(b.getvalue())
    if op == "preview":
        psd = PSDImage.open(arg)
        return repr((psd.has_preview(), sorted(str(k) for k in psd.image_resources.keys())))
    if op == "pattern_edit_composite":
        # edit the first embedded pattern (invert its planes), then render: an edit of THIS document only
        import numpy as np
        from psd_tools.composite import composite
        from psd_tools.constants import Tag
        psd = PSDImage.open(arg)
        done = False
        for key in (Tag.PATTERNS1, Tag.PATTERNS2, Tag.PATTERNS3):
            pats = psd.tagged_blocks.get_data(key) if psd.tagged_blocks else None
            for pat in (pats or []):
                for ch in pat.data.channels:
                    if ch.is_written and ch.data:
                        raw = ch.get_data()
                        ch.set_data((ch.rectangle[3], ch.rectangle[2]), bytes(255 - x for x in raw), ch.pixel_depth, ch.compression)
                        done = True
                if done:
                    break
            if done:
                break
        if psd.width * psd.height > 400 * 400:
            return "skipped-large"
        c, s_, a = composite(psd, force=True)
        return sha(np.ascontiguousarray(c).tobytes()) + (":edited" if done else ":no-pattern")
    if op == "build":
        from PIL import Image
        from psd_tools.api.layers import Group, PixelLayer
        parts = str(arg).split(":")
        w = int(parts[0])
        depth = int(parts[1]) if len(parts) > 1 else 8
        psd = PSDImage.new("RGB", (w, w), depth=depth)
        im = Image.new("RGB", (w, w), (0, 0, 30))          # two all-zero planes: empty RLE rows
        layer = PixelLayer.frompil(im, psd, "L1")
        psd.append(layer)
        g = Group.new("G", parent=psd)
        b = io.BytesIO()
        psd.save(b)
        return sha(b.getvalue())
    if op == "desc_read":      # arg: hex of a Descriptor body
        from psd_tools.psd.descriptor import Descriptor
        d = Descriptor.frombytes(bytes.fromhex(arg))
        return sha(d.tobytes())
    if op == "desc_build":     # arg: hex of a 4-byte key; build a descriptor holding it and write it
        from psd_tools.psd.descriptor import Descriptor, Integer
        d = Descriptor(name="", classID=b"null")
        d[bytes.fromhex(arg)] = Integer(7)
        return d.tobytes().hex()
    if op == "desc_read_trunc":
        from psd_tools.psd.descriptor import Descriptor
        try:
            Descriptor.frombytes(bytes.fromhex(arg))
            return "accepted"
        except Exception as e:  # noqa
            return "rejected:" + type(e).__name__
    if op == "api_script":     # arg: JSON list of actions on freshly built documents (see run_script)
        return run_script(json.loads(arg))
    if op == "kwcall":         # arg: JSON [path, "doc"|"layer", entry point, {option: value}] - a call with NON-default options
        return kwcall(*json.loads(arg))
    if op == "xdoc_script":    # arg: JSON [target|"new", source a, source b, [[src doc, layer, dst doc] ...]]
        return run_xdoc(json.loads(arg))
    if op == "new_doc":        # arg: "mode:w:h:depth" - PSDImage.new with valid and invalid arguments
        mode, w, h, depth = str(arg).split(":")
        psd = PSDImage.new(mode, (int(w), int(h)), depth=int(depth))
        b = io.BytesIO()
        psd.save(b)
        return "built %dx%d %s" % (psd.width, psd.height, sha(b.getvalue()))
    if op == "set_attr":       # arg: "path|attribute|python literal": edit the first layer, save
        import ast as _ast
        path, attr_name, lit = str(arg).split("|")
        psd = PSDImage.open(path)
        layer = next(iter(psd.descendants()))
        setattr(layer, attr_name, _ast.literal_eval(lit))
        b = io.BytesIO()
        psd.save(b)
        return "set %r %s" % (getattr(layer, attr_name), sha(b.getvalue()))
    if op == "call_deprecated":
        # the library's own deprecation helper wrapped around a function of ours
        from psd_tools.api import deprecated

        @deprecated
        def old_name():
            return 7
        old = sys.stderr
        sys.stderr = io.StringIO()
        try:
            return "returned %r" % (old_name(),)
        finally:
            sys.stderr = old
    if op == "warn_probe":
        # does the application's choice (this script ignores warnings) still hold?
        with warnings.catch_warnings(record=True) as w:
            warnings.warn("application's own deprecation", DeprecationWarning)
            warnings.warn("application's own warning", UserWarning)
        return "shown %d" % len(w)
    raise ValueError("unknown op " + op)


def run_script(actions):
    """A scripted edit history on freshly built documents, degenerate configurations included: layers created but
    not attached, grouped before being attached, detached groups, operations that raise half-way.

    actions: ["doc", mode, w, h] | ["open", path] | ["layer", doc, parent|null] | ["group", parent|null]
             | ["group_layers", [items], parent|null] | ["append", container, item] | ["insert", container, i, item]
             | ["extend", container, [items | "junk"]] | ["remove", container, item] | ["pop", container, i]
             | ["clear", container] | ["move_to_group", item, container] | ["move_up", item, n] | ["delete", item]
             | ["set", item, attribute, value] | ["save", doc] | ["composite", doc]
    references: "d<i>" = i-th document, "o<i>" = i-th created layer / group (in creation order).
    -> digest of (what every action returned or raised, the structure and the saved bytes of every document)."""
    from PIL import Image
    from psd_tools import PSDImage
    from psd_tools.api.layers import Group, PixelLayer
    docs, objs, trace = [], [], []

    def ref(r):
        if r is None:
            return None
        if r == "junk":
            return 42
        return docs[int(r[1:])] if r[0] == "d" else objs[int(r[1:])]

    for act in actions:
        kind = act[0]
        try:
            if kind == "doc":
                docs.append(PSDImage.new(act[1], (act[2], act[3])))
                out = "doc"
            elif kind == "open":
                docs.append(PSDImage.open(act[1]))
                out = "opened"
            elif kind == "layer":
                d = ref(act[1])
                n = len(objs)
                im = Image.new("RGB", (2 + n % 3, 2), (40 * n % 256, 20, 200))
                layer = PixelLayer.frompil(im, d, "layer%d" % n, n % 3, n % 2)
                objs.append(layer)
                if act[2] is not None:
                    ref(act[2]).append(layer)
                out = "layer"
            elif kind == "group":
                g = Group.new("group%d" % len(objs), parent=ref(act[1]))
                objs.append(g)
                out = "group"
            elif kind == "group_layers":
                g = Group.group_layers([ref(x) for x in act[1]], name="grouped%d" % len(objs), parent=ref(act[2]))
                objs.append(g)
                out = "grouped"
            elif kind == "append":
                ref(act[1]).append(ref(act[2]))
                out = "ok"
            elif kind == "insert":
                ref(act[1]).insert(act[2], ref(act[3]))
                out = "ok"
            elif kind == "extend":
                ref(act[1]).extend([ref(x) for x in act[2]])
                out = "ok"
            elif kind == "remove":
                ref(act[1]).remove(ref(act[2]))
                out = "ok"
            elif kind == "pop":
                out = "popped %s" % ref(act[1]).pop(act[2]).name
            elif kind == "clear":
                ref(act[1]).clear()
                out = "ok"
            elif kind == "move_to_group":
                ref(act[1]).move_to_group(ref(act[2]))
                out = "ok"
            elif kind == "move_up":
                ref(act[1]).move_up(act[2])
                out = "ok"
            elif kind == "delete":
                ref(act[1]).delete_layer()
                out = "ok"
            elif kind == "set":
                setattr(ref(act[1]), act[2], act[3])
                out = "ok"
            elif kind == "save":
                b = io.BytesIO()
                ref(act[1]).save(b)
                out = "saved " + sha(b.getvalue())
            elif kind == "composite":
                import numpy as np
                from psd_tools.composite import composite
                c, _s, a = composite(ref(act[1]), force=True)
                out = "composite " + sha(np.ascontiguousarray(c).tobytes() + np.ascontiguousarray(a).tobytes())
            else:
                out = "unknown action"
        except Exception as e:  # noqa
            out = "EXC:" + type(e).__name__
        trace.append(out)
    final = []
    for d in docs:
        try:
            b = io.BytesIO()
            d.save(b)
            again = PSDImage.open(io.BytesIO(b.getvalue()))
            final.append((describe(d), sha(b.getvalue()), describe(again)))
        except Exception as e:  # noqa
            final.append("EXC:" + type(e).__name__)
    return sha(repr((trace, final)).encode("utf-8", "replace")) + ":" + ",".join(t.split(" ")[0] for t in trace)[:160]


def _digest_value(r):
    import numpy as np
    if r is None:
        return "None"
    if isinstance(r, np.ndarray):
        return "array%s:%s" % (r.shape, sha(np.ascontiguousarray(r).tobytes()))
    if hasattr(r, "tobytes") and hasattr(r, "mode"):
        return "image %s %s:%s" % (r.mode, r.size, sha(r.tobytes()))
    if isinstance(r, (tuple, list)):
        return "(" + ",".join(_digest_value(x) for x in r) + ")"
    return repr(r)[:80]


def kwcall(path, target, name, kw):
    from PIL import Image
    from psd_tools import PSDImage
    kw = {k: (tuple(v) if isinstance(v, list) else v) for k, v in kw.items()}
    if name in ("open", "new", "frompil"):
        if name == "open":
            psd = PSDImage.open(path, **kw)
        elif name == "new":
            psd = PSDImage.new("RGB", (4, 3), **kw)
        else:
            psd = PSDImage.frompil(Image.new("RGB", (4, 3), (10, 20, 30)), **kw)
        b = io.BytesIO()
        psd.save(b)
        return "%s -> %s %s" % (name, sha(describe(psd).encode("utf-8", "replace")), sha(b.getvalue()))
    psd = PSDImage.open(path)
    obj = psd if target == "doc" else next(iter(psd.descendants()))
    if name == "save":
        b = io.BytesIO()
        obj.save(b, **kw)
        return "saved %d %s" % (len(b.getvalue()), sha(b.getvalue()))
    return name + " -> " + _digest_value(getattr(obj, name)(**kw))


def _doc_digest(d):
    import re
    b = io.BytesIO()
    d.save(b)
    blocks = re.sub(r" at 0x[0-9a-fA-F]+", "", repr(d.tagged_blocks))
    return sha(b.getvalue()) + sha(blocks.encode("utf-8", "replace")) + sha(describe(d).encode("utf-8", "replace"))


def _reachable(root, limit=200000):
    """id -> (access path, type name) of every MUTABLE object reachable from `root` through fields, containers and
    instance dictionaries"""
    import enum
    import attr
    out, seen = {}, set()
    stack = [(root, "")]
    while stack and len(seen) < limit:
        v, path = stack.pop()
        if id(v) in seen or v is None or isinstance(v, (str, bytes, int, float, bool, complex, type, enum.Enum, type(sys),
                                                        frozenset, range)):
            continue
        if callable(v) and not hasattr(v, "_items") and not attr.has(type(v)):
            continue
        seen.add(id(v))
        if not isinstance(v, tuple):
            out[id(v)] = (path, type(v).__name__)
        kids = []
        if isinstance(v, dict):
            kids = [(x, "%s[%r]" % (path, k)) for k, x in list(v.items())]
        elif isinstance(v, (list, tuple, set)):
            kids = [(x, "%s[%d]" % (path, i)) for i, x in enumerate(list(v))]
        else:
            if attr.has(type(v)):
                for f in attr.fields(type(v)):
                    try:
                        kids.append((getattr(v, f.name), path + "." + f.name))
                    except Exception:  # noqa
                        pass
            elif hasattr(v, "__dict__"):
                kids = [(x, path + "." + k) for k, x in list(vars(v).items())]
            if hasattr(v, "_items") and not attr.has(type(v)):
                kids.append((v._items, path + "._items"))
        stack.extend(kids)
    return out


def run_xdoc(spec):
    """Three documents, cross-document moves into one of them.  After every move: (frame law) a document that took no
    part in the move has the same saved bytes / tagged blocks / structure as before it; (ownership) no mutable object
    reachable from one document's record is reachable from another's.  A problem travels in the result after `XDOC:`."""
    from psd_tools import PSDImage
    tgt, a, b, moves = spec
    docs = [PSDImage.new("RGB", (32, 32)) if tgt == "new" else PSDImage.open(tgt), PSDImage.open(a), PSDImage.open(b)]
    trace, problems = [], []

    def pick(doc, which):
        layers = list(doc.descendants())
        if not layers:
            return None
        if which == "fx":
            def rank(l):
                try:
                    fx = list(l.effects)
                except Exception:  # noqa
                    fx = []
                pat = any(getattr(e, "has_patterns", lambda: False)() for e in fx)
                return (not pat, not fx, l.kind != "smartobject")
            return sorted(layers, key=rank)[0]
        return layers[int(which) % len(layers)]

    def safe_digest(d):
        try:
            return _doc_digest(d)
        except Exception as e:  # noqa
            return "EXC:" + type(e).__name__

    prev = [safe_digest(d) for d in docs]
    for mi, (si, which, di) in enumerate(moves):
        layer = pick(docs[si], which)
        try:
            if layer is None:
                out = "nothing to move"
            else:
                layer.move_to_group(docs[di])
                out = "moved %s" % layer.kind
        except Exception as e:  # noqa
            out = "EXC:" + type(e).__name__
        trace.append(out)
        cur = [safe_digest(d) for d in docs]
        for j in range(len(docs)):
            if j not in (si, di) and cur[j] != prev[j]:
                problems.append({"kind": "uninvolved-document-changed", "document": j, "move": mi,
                                 "what": "document %d changed by move %d (a layer of document %d into document %d)" % (j, mi, si, di)})
        prev = cur
        # from the document object itself: its record AND its layer objects with whatever they cache
        reach = [_reachable(d) for d in docs]
        for i in range(len(docs)):
            for j in range(i + 1, len(docs)):
                common = set(reach[i]) & set(reach[j])
                if common:
                    c = min(common, key=lambda x: (len(reach[i][x][0]), reach[i][x][0]))
                    problems.append({"kind": "shared-object/" + reach[i][c][1], "documents": [i, j], "move": mi,
                                     "what": "after move %d documents %d and %d hold the same %s object: %s  /  %s (%d shared)"
                                             % (mi, i, j, reach[i][c][1], reach[i][c][0], reach[j][c][0], len(common))})
        if problems:
            break
    res = sha(repr((trace, prev)).encode("utf-8", "replace")) + ":" + ",".join(t.split(" ")[0] for t in trace)
    if problems:
        res += ":XDOC:" + json.dumps(problems[0], sort_keys=True)
    return res


def classify(paths):
    """open every file, report ("opened" | "opened+warning:<first message>" | "EXC:<type>") - used to pick the damaged
    documents that the reader tolerates. Runs in a subprocess of its own: it executes the library on damaged input."""
    from psd_tools import PSDImage
    logging.disable(logging.NOTSET)
    seen = []

    class H(logging.Handler):
        def emit(self, record):
            if record.levelno >= logging.WARNING:
                seen.append(record.getMessage())

    h = H()
    root = logging.getLogger("psd_tools")
    root.addHandler(h)
    out = []
    for p in paths:
        del seen[:]
        try:
            psd = PSDImage.open(p)
            describe(psd)
            out.append("opened+warning:" + seen[0][:60] if seen else "opened")
        except Exception as e:  # noqa
            out.append("EXC:" + type(e).__name__)
    return out


def run_sessions_forked(scripts, workers):
    """Every script in a process of its own, forked from THIS interpreter, which has done nothing but the imports a
    fresh session does first: the child is in the state of a fresh interpreter that has just finished importing
    (no step ever runs in the parent). Saves the import time of one interpreter per step."""
    import select
    results = [None] * len(scripts)
    running = {}
    nxt = 0
    sys.stdout.flush()
    while nxt < len(scripts) or running:
        while nxt < len(scripts) and len(running) < workers:
            r, w = os.pipe()
            pid = os.fork()
            if pid == 0:
                code = 0
                try:
                    os.close(r)
                    try:
                        data = json.dumps(run_one(scripts[nxt]))
                    except BaseException as e:  # noqa
                        data = json.dumps({"error": repr(e)[:300]})
                    with os.fdopen(w, "w") as f:
                        f.write(data)
                except BaseException:  # noqa
                    code = 1
                os._exit(code)
            os.close(w)
            running[r] = [nxt, pid, b""]
            nxt += 1
        ready, _, _ = select.select(list(running), [], [])
        for fd in ready:
            chunk = os.read(fd, 1 << 16)
            if chunk:
                running[fd][2] += chunk
            else:
                i, pid, buf = running.pop(fd)
                os.close(fd)
                os.waitpid(pid, 0)
                try:
                    results[i] = json.loads(buf.decode())
                except Exception:  # noqa
                    results[i] = {"error": "no answer from the forked session"}
    return results


def main():
    script = json.loads(sys.stdin.read() if sys.argv[2] == "-" else sys.argv[2])
    import psd_tools  # noqa
    import psd_tools.api.psd_image, psd_tools.composite, psd_tools.psd.descriptor  # noqa
    import psd_tools.api.effects, psd_tools.api.adjustments, psd_tools.api.shape, psd_tools.api.smart_object  # noqa
    if isinstance(script, dict) and "classify" in script:
        print(json.dumps({"classes": classify(script["classify"])}))
        return
    if isinstance(script, dict) and "fork_each" in script:
        print(json.dumps({"sessions": run_sessions_forked(script["fork_each"], int(script.get("workers", 12)))}))
        return
    print(json.dumps(run_one(script)))


def run_one(script):
    before = snapshot()
    prev = before
    results = []
    changed_by = {}
    import time
    spent = {}
    for i, (op, arg) in enumerate(script):
        t0 = time.time()
        try:
            results.append(step(op, arg))
        except Exception as e:  # noqa
            results.append("EXC:" + type(e).__name__)
        spent[op] = spent.get(op, 0.0) + time.time() - t0
        t0 = time.time()
        cur = snapshot()
        spent["<snapshot>"] = spent.get("<snapshot>", 0.0) + time.time() - t0
        for k in diff(prev, cur):
            changed_by.setdefault(k, i)
        prev = cur
    changed = diff(before, prev)
    return {"results": results, "changed_cells": changed,
            "changed_by": {k: v for k, v in changed_by.items()},
            "restored": sorted(k for k in changed_by if k not in changed),
            "seconds": {k: round(v, 2) for k, v in spent.items()}}


if __name__ == "__main__":
    main()
