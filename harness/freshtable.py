"""C14: every public call of the recorded histories as ONE step of the table-interpreting machine
(Model/FreshState.lean over Generated/FreshTable.lean) through the driver command `fresh.hist`.

The machine is told, per call: which row (public mutator), for each of its segments which object every owner
expression of the table names and which of its `if` tests are false (both evaluated here on the state BEFORE the
call, by `eval` of the normalised source text over read-only proxies of the recorded dump), and the real state after
the call, from which each raw mutation copies the one input it names. What is compared after every call: every
field of every object, the caches (`_bbox`, read privately by treeops.node_fields) included. A call of a mutator
that has no row, or an input that changed without the table naming it, shows as a difference.
"""
from __future__ import annotations

import re

import core
import treeops as T

# harness operation -> row of Generated/FreshTable.lean
ROW = {
    "append": "GroupMixin.append", "extend": "GroupMixin.extend", "insert": "GroupMixin.insert",
    "remove": "GroupMixin.remove", "pop": "GroupMixin.pop", "clear": "GroupMixin.clear",
    "setitem": "GroupMixin.__setitem__", "setslice": "GroupMixin.__setitem__",
    "delitem": "GroupMixin.__delitem__", "delslice": "GroupMixin.__delitem__",
    "delete": "Layer.delete_layer", "move": "Layer.move_to_group", "up": "Layer.move_up", "down": "Layer.move_down",
    "newgroup": "Group.new", "grouplayers": "Group.group_layers",
    "vis": "Layer.visible.setter", "left": "Layer.left.setter", "top": "Layer.top.setter",
}
CONT = ("d", "g", "a")


def fields(node: str):
    f = node.split(" ")
    return {"id": int(f[0]), "kind": f[1], "kids": [] if f[2] == "-" else [int(x) for x in f[2].split(",")],
            "par": None if f[3] == "_" else int(f[3]), "psd": None if f[4] == "_" else int(f[4])}


class P:
    """read-only stand-in for an API object of the recorded state"""

    def __init__(self, w, i):
        self._w, self._i = w, i

    @property
    def parent(self):
        p = self._w[self._i]["par"]
        return P(self._w, p) if p is not None and p in self._w else None

    _parent = parent

    @property
    def _psd(self):
        p = self._w[self._i]["psd"]
        return P(self._w, p) if p is not None and p in self._w else None

    @property
    def _layers(self):
        return [P(self._w, c) for c in self._w[self._i]["kids"]]

    def __iter__(self):
        return iter(self._layers)

    def __len__(self):
        return len(self._w[self._i]["kids"])

    def __getitem__(self, k):
        return self._layers[k]

    def __contains__(self, x):
        return isinstance(x, P) and x._i in self._w[self._i]["kids"]

    def __eq__(self, o):
        return isinstance(o, P) and o._i == self._i

    def __ne__(self, o):
        return not self.__eq__(o)

    def __hash__(self):
        return hash(self._i)


def _isinstance(x, c):
    if not isinstance(x, P):
        return False
    k = x._w[x._i]["kind"]
    names = c if isinstance(c, tuple) else (c,)
    for n in names:
        if n == "GroupMixin" and k in CONT:
            return True
        if n == "PSDImage" and k == "d":
            return True
        if n == "Group" and k in ("g", "a"):
            return True
        if n == "Artboard" and k == "a":
            return True
        if n == "Layer" and k != "d":
            return True
    return False


def _doc(x):
    if not isinstance(x, P):
        return None
    return x if x._w[x._i]["kind"] == "d" else x._psd


GLOBALS = {"__builtins__": {"len": len, "list": list, "isinstance": _isinstance, "id": id, "None": None},
           "isinstance": _isinstance, "doc": _doc, "GroupMixin": "GroupMixin", "PSDImage": "PSDImage", "Group": "Group",
           "Artboard": "Artboard", "Layer": "Layer", "ShapeLayer": "ShapeLayer", "PixelLayer": "PixelLayer"}


def _eval(src, env):
    try:
        return eval(src, dict(GLOBALS), dict(env))  # noqa: the text comes from the library's own `if` tests
    except Exception:  # noqa
        return None


def instance(row, k, seg, env):
    """`row@seg@objs@absent@falses` for one execution of segment k of a row in the environment `env`"""
    owners, tests = [], []
    for e in seg:
        if e[0] in ("mutate", "inval", "reset", "dirty", "read", "store") and e[1] not in owners:
            owners.append(e[1])
        for g in (e[-1] if e[0] != "other" else []):
            if g not in tests:
                tests.append(g)
    objs, absent = [], []
    for o in owners:
        v = _eval(o, env)
        if isinstance(v, P):
            objs.append("%s=%d" % (o, v._i))
        else:
            absent.append(o)
    falses = []
    for g in tests:
        gid, text = g.split(":", 1)
        m = re.fullmatch(r"not\((.*)\)", text, re.S)
        v = _eval(m.group(1), env) if m else _eval(text, env)
        truth = (not v) if m else bool(v)
        if v is None and not m:
            truth = False
        if not truth:
            falses.append(gid + ("!" if m else ""))
    j = lambda xs: ",".join(xs) if xs else "-"
    return "%s@%d@%s@%s@%s" % (row, k, j(objs), j(absent), j(falses))


def call_instances(info_rows, op, pre, post, out):
    """the segment instances of one successful public call, or None when the call is outside the table"""
    row = ROW.get(op[0])
    if row is None:
        return None
    segs = info_rows.get(row)
    if segs is None:
        return "norow"
    w = dict(pre)
    for i, f in post.items():
        if i not in w:
            g = dict(f)
            g["par"], g["kids"] = None, []          # an object created by the call, as the constructor leaves it
            w[i] = g
    O = lambda i: P(w, i) if i is not None and i in w else None
    n = op[0]
    if row.startswith("GroupMixin."):
        return [instance(row, k, s, {"self": O(op[1])}) for k, s in enumerate(segs)]
    if n in ("delete", "up", "down", "vis", "left", "top"):
        return [instance(row, k, s, {"self": O(op[1])}) for k, s in enumerate(segs)]
    if n == "move":
        return [instance(row, k, s, {"self": O(op[1]), "group": O(op[2])}) for k, s in enumerate(segs)]
    new = int(out[3:]) if out.startswith("id:") else None
    if n == "newgroup":
        return [instance(row, k, s, {"group": O(new), "parent": O(op[1])}) for k, s in enumerate(segs)]
    if n == "grouplayers":
        xs = list(op[1])
        par = op[2]
        if par is None and xs:
            p0 = w[xs[0]]["par"] if xs[0] in w else None
            if p0 is not None and p0 in w and w[p0]["kind"] in CONT and xs[0] in w[p0]["kids"]:
                par = p0
        if par is not None and (par not in pre or pre[par]["kind"] not in CONT):
            par = None
        insts = []
        if len(segs) != 2:
            return "norow"
        for x in xs:
            insts.append(instance(row, 0, segs[0], {"layer": O(x), "group": O(new)}))
        # the owner of the second segment is the parent the method settled on (its local `parent`)
        owner = next((e[1] for e in segs[1] if e[0] == "mutate"), "parent")
        j = "%s=%d" % (owner, par) if par is not None else "-"
        insts.append("%s@1@%s@%s@-" % (row, j, "-" if par is not None else owner))
        return insts
    return None


def to_init(nodes: dict, nxt: int) -> str:
    parts = ["%d %d" % (T.LIMIT, nxt)]
    for i in sorted(nodes):
        f = nodes[i].split(" ")
        cache = "_" if f[7] == "*" else f[7]
        blocks = "-" if f[9] == "*" else f[9]
        parts.append(" ".join([f[0], f[1], f[3], f[4], f[5], f[6], cache, f[8], f[2], blocks]))
    return ";".join(parts)


def _init_nodes(init: str):
    """init string -> (next, {id: node string in dump order})"""
    parts = init.split(";")
    nxt = int(parts[0].split(" ")[1])
    d = {}
    for p in parts[1:]:
        f = p.split(" ")
        blocks = f[9] if len(f) > 9 else "-"
        d[int(f[0])] = " ".join([f[0], f[1], f[8], f[2], f[3], f[4], f[5], f[6], f[7], blocks])
    return nxt, d


def requests(info, traces):
    """-> list of (trace, request fields, [model step index per driver step])"""
    info_rows = {n: segs for n, segs in info["rows"]}
    reqs = []
    for t in traces:
        nxt, cur = _init_nodes(t.init)
        steps, idx = [], []
        pre = {i: fields(s) for i, s in cur.items()}
        for k, mop in enumerate(t.mops):
            if t.out_of_model is not None and t.msrc[k] >= t.out_of_model:
                break
            real = t.mdumps[k]
            out = t.mouts[k]
            post = {i: fields(s) for i, s in real.items()}
            nxt = max(nxt, max(real) + 1 if real else 0)
            insts = None
            if not out.startswith("err:"):
                insts = call_instances(info_rows, mop, pre, post, out)
            if insts == "norow":
                steps.append(("norow", ROW[mop[0]]))
                idx.append(k)
                break
            if insts is None:
                steps.append("o " + T.op_str(mop))
            else:
                steps.append("c %s#%s" % (";".join(insts) if insts else "-", to_init(real, nxt)))
            idx.append(k)
            pre = post
        reqs.append((t, steps, idx))
    return reqs


def compare(ctx, info, traces, what="C14 table"):
    """Runs the histories through `fresh.hist`; reports differences through ctx.disagree. Returns their number."""
    n_bad = 0
    reqs = requests(info, traces)
    batch, keep = [], []
    for t, steps, idx in reqs:
        plain = [s for s in steps if not isinstance(s, tuple)]
        batch.append(("fresh.hist", t.init) + tuple(plain))
        keep.append((t, steps, idx))
    answers = ctx.driver().batch(batch) if batch else []
    for (t, steps, idx), ans in zip(keep, answers):
        if ans[0] != "ok":
            raise core.Infra("fresh.hist: %s for %r" % (ans, [s[:60] for s in steps[:4]]))
        states = ans[1].split("|") if len(ans) > 1 and ans[1] else []
        for j, st in enumerate(steps):
            k = idx[j]
            if isinstance(st, tuple):
                ctx.disagree("%s: public mutator %s called by the harness has no row in Generated/FreshTable.lean" % (what, st[1]),
                             {"recipe": list(t.world.recipe), "ops": T.ops_to_json(t.ops[:t.msrc[k] + 1])})
                n_bad += 1
                break
            nodes = {}
            for n in (states[j].split(";") if j < len(states) and states[j] else []):
                nodes[int(n.split(" ", 1)[0])] = n
            ctx.corr_cases += 1
            if st.startswith("c "):
                ctx.hist("table_calls", st[2:].split("@", 1)[0])
            bad = None
            for i, s in t.mdumps[k].items():
                if not T.same_node(s, nodes.get(i)):
                    bad = (i, s, nodes.get(i))
                    break
            if bad:
                n_bad += 1
                ctx.disagree("%s: table machine and code differ after step %d (node %d)" % (what, t.msrc[k], bad[0]),
                             {"recipe": list(t.world.recipe), "ops": T.ops_to_json(t.ops[:t.msrc[k] + 1]),
                              "step": st[:300], "code": bad[1], "machine": bad[2]})
                break
    return n_bad
