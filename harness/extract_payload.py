"""C01 (payload classes) extractor: the table-shaped facts of the payload classes brought into the model, read from
the live modules and from their AST on every run -> lean/PsdVerif/Generated/Payload.lean.

Per unit (see lean/PsdVerif/Model/Payload*.lean):

* unit 1 `LayerInfoBlock`: the keys `tagged_blocks.TYPES` maps to it, its base classes, the (unparsed) bodies of its
  `read` / `write`, and the three expressions of `TaggedBlock.read/write` the composition depends on (inner padding,
  the payload write call, the payload read call).
* every unit: `calls` - every call of a `psd_tools.utils` primitive (read_fmt, write_fmt, is_readable,
  read/write_length_block, read/write_pascal_string, read/write_unicode_string, read/write_padding, write_bytes) made
  by a method of a modelled class: (class, method, primitive, arguments as written, normalised by `ast.unparse`),
  in source order; `registry` - (key, class name) for every key of `tagged_blocks.TYPES` whose class is modelled;
  enum member tables and validator option sets used by the models.

A source that no longer has the shape read here is *not* an infrastructure error: the table is emitted with what was
found (a missing class / method gives the sentinel row `("<class>", "<method>", "<missing>", "")`), the tie theorems of
Props/C01Payload.lean then fail, and the run goes on.
"""
from __future__ import annotations

import ast
import importlib
import inspect

PRIMS = ("read_fmt", "write_fmt", "is_readable", "read_length_block", "write_length_block", "read_pascal_string",
         "write_pascal_string", "read_unicode_string", "write_unicode_string", "read_padding", "write_padding",
         "write_bytes", "read_be_array", "write_be_array")

# (module, class, methods) of every modelled class, unit by unit
UNIT1 = [("psd_tools.psd.layer_and_mask", "LayerInfoBlock", ("read", "write")),
         ("psd_tools.psd.layer_and_mask", "LayerInfo", ("_read_body", "_write_body", "_update_channel_length")),
         ("psd_tools.psd.tagged_blocks", "TaggedBlock", ("read", "write", "_length_format"))]
UNITS = {"unit1": UNIT1}


def _s(x: str) -> str:
    return '"' + x.replace("\\", "\\\\").replace('"', '\\"').replace("\n", "\\n") + '"'


def _bytes(b) -> str:
    return "[" + ", ".join(str(x) for x in bytes(b)) + "]"


def _module_tree(modname, notes):
    try:
        M = importlib.import_module(modname)
        return M, ast.parse(inspect.getsource(M))
    except Exception as e:  # noqa
        notes.append(f"{modname}: source not readable ({type(e).__name__})")
        return None, ast.Module(body=[], type_ignores=[])


def _class_node(tree, name):
    for n in tree.body:
        if isinstance(n, ast.ClassDef) and n.name == name:
            return n
    return None


def _method_node(cls, name):
    if cls is None:
        return None
    for n in cls.body:
        if isinstance(n, ast.FunctionDef) and n.name == name:
            return n
    return None


def _body_text(fn):
    """the statements of a method, docstring and logger calls dropped, as one normalised line"""
    if fn is None:
        return "<missing>"
    out = []
    for st in fn.body:
        if isinstance(st, ast.Expr) and isinstance(st.value, ast.Constant) and isinstance(st.value.value, str):
            continue
        if isinstance(st, ast.Expr) and isinstance(st.value, ast.Call) and "logger" in ast.unparse(st.value.func):
            continue
        out.append(ast.unparse(st))
    return "; ".join(" ".join(x.split()) for x in out)


def _calls_in_order(fn):
    """calls of utils primitives in a method, in source order (line, column)"""
    found = []
    for call in [n for n in ast.walk(fn) if isinstance(n, ast.Call)]:
        name = getattr(call.func, "id", None)
        if name in PRIMS:
            args = ", ".join([ast.unparse(a) for a in call.args] + [f"{k.arg}={ast.unparse(k.value)}" for k in call.keywords])
            found.append(((call.lineno, call.col_offset), name, " ".join(args.split())))
    found.sort()
    return [(n, a) for _, n, a in found]


def calls_table(spec, notes):
    rows = []
    trees = {}
    for modname, cname, methods in spec:
        if modname not in trees:
            trees[modname] = _module_tree(modname, notes)[1]
        cls = _class_node(trees[modname], cname)
        if cls is None:
            notes.append(f"class {cname} not found in {modname}")
        for m in methods:
            fn = _method_node(cls, m)
            if fn is None:
                rows.append((cname, m, "<missing>", ""))
                continue
            cs = _calls_in_order(fn)
            if not cs:
                rows.append((cname, m, "<none>", ""))
            for name, args in cs:
                rows.append((cname, m, name, args))
    return rows


def _find_expr(fn, pred):
    if fn is None:
        return "<missing>"
    for n in ast.walk(fn):
        r = pred(n)
        if r is not None:
            return " ".join(r.split())
    return "<missing>"


def unit1(notes):
    t = {}
    TB = importlib.import_module("psd_tools.psd.tagged_blocks")
    reg = getattr(TB, "TYPES", None)
    if not isinstance(reg, dict):
        notes.append("tagged_blocks.TYPES not found")
        reg = {}
    t["layerInfoBlockKeys"] = sorted(bytes(getattr(k, "value", k)) for k, v in reg.items()
                                     if getattr(v, "__name__", "") == "LayerInfoBlock")
    _, tree = _module_tree("psd_tools.psd.layer_and_mask", notes)
    cls = _class_node(tree, "LayerInfoBlock")
    t["layerInfoBlockBases"] = [ast.unparse(b) for b in cls.bases] if cls is not None else ["<missing>"]
    t["layerInfoBlockRead"] = _body_text(_method_node(cls, "read"))
    t["layerInfoBlockWrite"] = _body_text(_method_node(cls, "write"))
    _, ttree = _module_tree("psd_tools.psd.tagged_blocks", notes)
    tcls = _class_node(ttree, "TaggedBlock")
    w, r = _method_node(tcls, "write"), _method_node(tcls, "read")

    def inner(n):
        if isinstance(n, ast.Assign) and any(getattr(x, "id", None) == "inner_padding" for x in n.targets):
            return ast.unparse(n.value)

    def pw(n):
        if isinstance(n, ast.Call) and ast.unparse(n.func) == "self.data.write":
            return ast.unparse(n)

    def pr(n):
        if isinstance(n, ast.Call) and ast.unparse(n.func).endswith(".frombytes"):
            return ast.unparse(n)
    t["taggedBlockInnerPadding"] = _find_expr(w, inner)
    t["taggedBlockPayloadWrite"] = _find_expr(w, pw)
    t["taggedBlockPayloadRead"] = _find_expr(r, pr)
    li = _class_node(tree, "LayerInfo")
    t["layerInfoBodies"] = [("LayerInfo", m, _body_text(_method_node(li, m)))
                            for m in ("_read_body", "_write_body", "_update_channel_length")]
    return t


def rows4(xs):
    return "[\n  " + ",\n  ".join("(" + ", ".join(_s(y) for y in x) + ")" for x in xs) + "\n]" if xs else "[]"


def gen_payload(ctx):
    notes: list = []
    parts = ["namespace PsdVerif.Generated.Payload\n"]
    summary = {}
    # ---- unit 1
    try:
        t1 = unit1(notes)
    except Exception as e:  # noqa  (a reshaped source: sentinels, the ties fail)
        notes.append(f"unit1 extraction failed: {type(e).__name__}: {e}")
        t1 = {"layerInfoBlockKeys": [], "layerInfoBlockBases": ["<missing>"], "layerInfoBlockRead": "<missing>",
              "layerInfoBlockWrite": "<missing>", "taggedBlockInnerPadding": "<missing>",
              "taggedBlockPayloadWrite": "<missing>", "taggedBlockPayloadRead": "<missing>",
              "layerInfoBodies": [("LayerInfo", "<extractor failed>", "<missing>")]}
    parts.append(
        "/-- keys of `tagged_blocks.TYPES` registered for `LayerInfoBlock`, sorted -/\n"
        f"def layerInfoBlockKeys : List (List UInt8) := [{', '.join(_bytes(k) for k in t1['layerInfoBlockKeys'])}]\n"
        f"def layerInfoBlockBases : List String := [{', '.join(_s(x) for x in t1['layerInfoBlockBases'])}]\n"
        f"/-- body of `LayerInfoBlock.read` -/\ndef layerInfoBlockRead : String := {_s(t1['layerInfoBlockRead'])}\n"
        f"/-- body of `LayerInfoBlock.write` -/\ndef layerInfoBlockWrite : String := {_s(t1['layerInfoBlockWrite'])}\n"
        f"/-- `inner_padding = ...` in `TaggedBlock.write` -/\ndef taggedBlockInnerPadding : String := {_s(t1['taggedBlockInnerPadding'])}\n"
        f"/-- how `TaggedBlock.write` writes a payload object -/\ndef taggedBlockPayloadWrite : String := {_s(t1['taggedBlockPayloadWrite'])}\n"
        f"/-- how `TaggedBlock.read` reads a payload object -/\ndef taggedBlockPayloadRead : String := {_s(t1['taggedBlockPayloadRead'])}\n"
        "/-- the bodies `LayerInfoBlock` inherits: (class, method, statements; docstrings and logger calls dropped) -/\n"
        f"def layerInfoBodies : List (String × String × String) := {rows4(t1['layerInfoBodies'])}\n")
    summary["layerInfoBlockKeys"] = [k.decode("latin1") for k in t1["layerInfoBlockKeys"]]
    # ---- calls of utils primitives, per unit
    for unit, spec in UNITS.items():
        try:
            rows = calls_table(spec, notes)
        except Exception as e:  # noqa
            notes.append(f"{unit} calls extraction failed: {type(e).__name__}: {e}")
            rows = [("<extractor>", "<failed>", "<missing>", "")]
        parts.append(f"/-- {unit}: calls of utils primitives (class, method, primitive, arguments), in source order -/\n"
                     f"def {unit}Calls : List (String × String × String × String) := {rows4(rows)}\n")
        summary[unit + "Calls"] = len(rows)
    parts.append("end PsdVerif.Generated.Payload\n")
    for n in notes:
        ctx.notes.append("extract_payload: " + n)
    ctx.write_generated("Payload", "".join(parts))
    return summary
