"""C01 (payload classes) extractor: the table-shaped facts of the payload classes brought into the model, read from
the live modules and from their AST on every run -> lean/PsdVerif/Generated/Payload.lean.

Per unit (see lean/PsdVerif/Model/Payload*.lean):

* unit 1 `LayerInfoBlock`: the keys `tagged_blocks.TYPES` maps to it, its base classes, the (unparsed) bodies of its
  `read` / `write`, and the three expressions of `TaggedBlock.read/write` the composition depends on (inner padding,
  the payload write call, the payload read call).
* every unit: `calls` - every call of a `psd_tools.utils` primitive (read_fmt, write_fmt, is_readable,
  read/write_length_block, read/write_pascal_string, read/write_unicode_string, read/write_padding, write_bytes) made
  by a method of a modelled class: (class, method, primitive, arguments as written, normalised by `ast.unparse`),
  in source order; `registry` - (key, class name) for every key of `tagged_blocks.TYPES` whose class is modelled;
  enum member tables and validator option sets used by the models.

A source that no longer has the shape read here is *not* an infrastructure error: the table is emitted with what was
found (a missing class / method gives the sentinel row `("<class>", "<method>", "<missing>", "")`), the tie theorems of
Props/C01Payload.lean then fail, and the run goes on.
"""
from __future__ import annotations

import ast
import importlib
import inspect

PRIMS = ("read_fmt", "write_fmt", "is_readable", "read_length_block", "write_length_block", "read_pascal_string",
         "write_pascal_string", "read_unicode_string", "write_unicode_string", "read_padding", "write_padding",
         "write_bytes", "read_be_array", "write_be_array")

# (module, class, methods) of every modelled class, unit by unit
UNIT1 = [("psd_tools.psd.layer_and_mask", "LayerInfoBlock", ("read", "write")),
         ("psd_tools.psd.layer_and_mask", "LayerInfo", ("_read_body", "_write_body", "_update_channel_length")),
         ("psd_tools.psd.tagged_blocks", "TaggedBlock", ("read", "write", "_length_format"))]
UNIT2 = [("psd_tools.psd.base", "EmptyElement", ("read", "write")),
         ("psd_tools.psd.base", "NumericElement", ("read", "write")),
         ("psd_tools.psd.base", "IntegerElement", ("read", "write")),
         ("psd_tools.psd.base", "ShortIntegerElement", ("read", "write")),
         ("psd_tools.psd.base", "ByteElement", ("read", "write")),
         ("psd_tools.psd.base", "BooleanElement", ("read", "write")),
         ("psd_tools.psd.base", "StringElement", ("read", "write")),
         ("psd_tools.psd.color", "Color", ("read", "write")),
         ("psd_tools.psd.tagged_blocks", "Bytes", ("read", "write")),
         ("psd_tools.psd.tagged_blocks", "ProtectedSetting", ("read", "write")),
         ("psd_tools.psd.tagged_blocks", "SheetColorSetting", ("read", "write")),
         ("psd_tools.psd.tagged_blocks", "ReferencePoint", ("read", "write")),
         ("psd_tools.psd.tagged_blocks", "SectionDividerSetting", ("read", "write")),
         ("psd_tools.psd.tagged_blocks", "UserMask", ("read", "write")),
         ("psd_tools.psd.tagged_blocks", "FilterMask", ("read", "write")),
         ("psd_tools.psd.tagged_blocks", "ChannelBlendingRestrictionsSetting", ("read", "write")),
         ("psd_tools.psd.tagged_blocks", "MetadataSettings", ("read", "write")),
         ("psd_tools.psd.tagged_blocks", "MetadataSetting", ("read", "write")),
         ("psd_tools.psd.tagged_blocks", "PixelSourceData2", ("read", "write")),
         ("psd_tools.psd.tagged_blocks", "Annotations", ("read", "write")),
         ("psd_tools.psd.tagged_blocks", "Annotation", ("read", "write"))]
UNIT3 = [("psd_tools.psd.effects_layer", "CommonStateInfo", ("read", "write")),
         ("psd_tools.psd.effects_layer", "ShadowInfo", ("read", "write")),
         ("psd_tools.psd.effects_layer", "_GlowInfo", ("_read_body", "_write_body")),
         ("psd_tools.psd.effects_layer", "OuterGlowInfo", ("read", "write")),
         ("psd_tools.psd.effects_layer", "InnerGlowInfo", ("read", "write")),
         ("psd_tools.psd.effects_layer", "BevelInfo", ("read", "write")),
         ("psd_tools.psd.effects_layer", "SolidFillInfo", ("read", "write")),
         ("psd_tools.psd.effects_layer", "EffectsLayer", ("read", "write"))]
UNIT4 = [("psd_tools.psd.patterns", "Patterns", ("read", "write")),
         ("psd_tools.psd.patterns", "Pattern", ("read", "write")),
         ("psd_tools.psd.patterns", "VirtualMemoryArrayList", ("read", "write", "_write_body")),
         ("psd_tools.psd.patterns", "VirtualMemoryArray", ("read", "write", "_write_body"))]
UNIT5 = [("psd_tools.psd.linked_layer", "LinkedLayers", ("read", "write")),
         ("psd_tools.psd.linked_layer", "LinkedLayer", ("read", "write"))]
UNIT6 = [("psd_tools.psd.tagged_blocks", "SmartObjectLayerData", ("read", "write")),
         ("psd_tools.psd.tagged_blocks", "PlacedLayerData", ("read", "write")),
         ("psd_tools.psd.tagged_blocks", "TypeToolObjectSetting", ("read", "write"))]
UNITS = {"unit1": UNIT1, "unit2": UNIT2, "unit3": UNIT3, "unit4": UNIT4, "unit5": UNIT5, "unit6": UNIT6}
# classes a registry row is emitted for (tagged_blocks.TYPES: key -> class name)
REGISTRY_CLASSES = {"unit2": ["EmptyElement", "IntegerElement", "ShortIntegerElement", "ByteElement", "StringElement", "Bytes",
                              "ProtectedSetting", "SheetColorSetting", "ReferencePoint", "SectionDividerSetting", "UserMask",
                              "FilterMask", "ChannelBlendingRestrictionsSetting", "MetadataSettings", "PixelSourceData2",
                              "Annotations"],
                    "unit3": ["EffectsLayer"],
                    "unit4": ["Patterns"],
                    "unit5": ["LinkedLayers"],
                    "unit6": ["SmartObjectLayerData", "PlacedLayerData", "TypeToolObjectSetting"]}


def _s(x: str) -> str:
    return '"' + x.replace("\\", "\\\\").replace('"', '\\"').replace("\n", "\\n") + '"'


def _bytes(b) -> str:
    return "[" + ", ".join(str(x) for x in bytes(b)) + "]"


def _module_tree(modname, notes):
    try:
        M = importlib.import_module(modname)
        return M, ast.parse(inspect.getsource(M))
    except Exception as e:  # noqa
        notes.append(f"{modname}: source not readable ({type(e).__name__})")
        return None, ast.Module(body=[], type_ignores=[])


def _class_node(tree, name):
    for n in tree.body:
        if isinstance(n, ast.ClassDef) and n.name == name:
            return n
    return None


def _method_node(cls, name):
    if cls is None:
        return None
    for n in cls.body:
        if isinstance(n, ast.FunctionDef) and n.name == name:
            return n
    return None


def _body_text(fn):
    """the statements of a method, docstring and logger calls dropped, as one normalised line"""
    if fn is None:
        return "<missing>"
    out = []
    for st in fn.body:
        if isinstance(st, ast.Expr) and isinstance(st.value, ast.Constant) and isinstance(st.value.value, str):
            continue
        if isinstance(st, ast.Expr) and isinstance(st.value, ast.Call) and "logger" in ast.unparse(st.value.func):
            continue
        out.append(ast.unparse(st))
    return "; ".join(" ".join(x.split()) for x in out)


def _calls_in_order(fn):
    """calls of utils primitives in a method, in source order (line, column)"""
    found = []
    for call in [n for n in ast.walk(fn) if isinstance(n, ast.Call)]:
        name = getattr(call.func, "id", None)
        if name in PRIMS:
            args = ", ".join([ast.unparse(a) for a in call.args] + [f"{k.arg}={ast.unparse(k.value)}" for k in call.keywords])
            found.append(((call.lineno, call.col_offset), name, " ".join(args.split())))
    found.sort()
    return [(n, a) for _, n, a in found]


def calls_table(spec, notes):
    rows = []
    trees = {}
    for modname, cname, methods in spec:
        if modname not in trees:
            trees[modname] = _module_tree(modname, notes)[1]
        cls = _class_node(trees[modname], cname)
        if cls is None:
            notes.append(f"class {cname} not found in {modname}")
        for m in methods:
            fn = _method_node(cls, m)
            if fn is None:
                rows.append((cname, m, "<missing>" if cls is None else "<inherited>", ""))
                continue
            cs = _calls_in_order(fn)
            if not cs:
                rows.append((cname, m, "<none>", ""))
            for name, args in cs:
                rows.append((cname, m, name, args))
    return rows


def _find_expr(fn, pred):
    if fn is None:
        return "<missing>"
    for n in ast.walk(fn):
        r = pred(n)
        if r is not None:
            return " ".join(r.split())
    return "<missing>"


def unit1(notes):
    t = {}
    TB = importlib.import_module("psd_tools.psd.tagged_blocks")
    reg = getattr(TB, "TYPES", None)
    if not isinstance(reg, dict):
        notes.append("tagged_blocks.TYPES not found")
        reg = {}
    t["layerInfoBlockKeys"] = sorted(bytes(getattr(k, "value", k)) for k, v in reg.items()
                                     if getattr(v, "__name__", "") == "LayerInfoBlock")
    _, tree = _module_tree("psd_tools.psd.layer_and_mask", notes)
    cls = _class_node(tree, "LayerInfoBlock")
    t["layerInfoBlockBases"] = [ast.unparse(b) for b in cls.bases] if cls is not None else ["<missing>"]
    t["layerInfoBlockRead"] = _body_text(_method_node(cls, "read"))
    t["layerInfoBlockWrite"] = _body_text(_method_node(cls, "write"))
    _, ttree = _module_tree("psd_tools.psd.tagged_blocks", notes)
    tcls = _class_node(ttree, "TaggedBlock")
    w, r = _method_node(tcls, "write"), _method_node(tcls, "read")

    def inner(n):
        if isinstance(n, ast.Assign) and any(getattr(x, "id", None) == "inner_padding" for x in n.targets):
            return ast.unparse(n.value)

    def pw(n):
        if isinstance(n, ast.Call) and ast.unparse(n.func) == "self.data.write":
            return ast.unparse(n)

    def pr(n):
        if isinstance(n, ast.Call) and ast.unparse(n.func).endswith(".frombytes"):
            return ast.unparse(n)
    t["taggedBlockInnerPadding"] = _find_expr(w, inner)
    t["taggedBlockPayloadWrite"] = _find_expr(w, pw)
    t["taggedBlockPayloadRead"] = _find_expr(r, pr)
    li = _class_node(tree, "LayerInfo")
    t["layerInfoBodies"] = [("LayerInfo", m, _body_text(_method_node(li, m)))
                            for m in ("_read_body", "_write_body", "_update_channel_length")]
    return t


def _enum_ints(modname, name, notes):
    try:
        E = getattr(importlib.import_module(modname), name)
        return sorted(int(m.value) for m in E)
    except Exception as e:  # noqa
        notes.append(f"{modname}.{name} not readable ({type(e).__name__}): generated as empty")
        return []


def _validator_options(K, field):
    import attr
    try:
        v = {a.name: a for a in attr.fields(K)}[field].validator
        return list(getattr(v, "options", None) or [])
    except Exception:  # noqa
        return []


def unit2(notes):
    t = {}
    t["sectionDividerKinds"] = _enum_ints("psd_tools.constants", "SectionDivider", notes)
    t["sheetColors"] = _enum_ints("psd_tools.constants", "SheetColorType", notes)
    try:
        C = importlib.import_module("psd_tools.constants")
        t["colorSpaceLab"] = int(C.ColorSpaceID.LAB)
    except Exception:  # noqa
        notes.append("constants.ColorSpaceID.LAB not found: generated as the sentinel 4294967295")
        t["colorSpaceLab"] = 4294967295
    TB = importlib.import_module("psd_tools.psd.tagged_blocks")
    MS = getattr(TB, "MetadataSetting", None)
    t["metadataSignatures"] = [bytes(x) for x in (getattr(MS, "_KNOWN_SIGNATURES", ()) or ())]
    t["metadataDescriptorKeys"] = sorted(bytes(x) for x in (getattr(MS, "_KNOWN_KEYS", ()) or ()))
    # the tuple of `if key in (b"mdyn", b"sgrp")` in MetadataSetting.read (AST)
    _, tree = _module_tree("psd_tools.psd.tagged_blocks", notes)
    fn = _method_node(_class_node(tree, "MetadataSetting"), "read")
    ints = None
    if fn is not None:
        for n in ast.walk(fn):
            if (isinstance(n, ast.If) and isinstance(n.test, ast.Compare) and len(n.test.ops) == 1 and isinstance(n.test.ops[0], ast.In)
                    and getattr(n.test.left, "id", None) == "key" and isinstance(n.test.comparators[0], ast.Tuple)):
                ints = [bytes(e.value) for e in n.test.comparators[0].elts if isinstance(e, ast.Constant) and isinstance(e.value, bytes)]
                break
    if ints is None:
        notes.append("MetadataSetting.read: `if key in (...)` not found: metadataIntKeys generated as empty")
        ints = []
    t["metadataIntKeys"] = ints
    t["sectionDividerConditions"] = [("SectionDividerSetting", m, "; ".join(_conditions("psd_tools.psd.tagged_blocks", "SectionDividerSetting", m, notes)))
                                     for m in ("read", "write")]
    AN = getattr(TB, "Annotation", None)
    t["annotationKinds"] = [bytes(x) for x in _validator_options(AN, "kind")] if AN else []
    t["annotationMarkers"] = [bytes(x) for x in _validator_options(AN, "marker")] if AN else []
    return t


def _conditions(modname, cname, mname, notes):
    """the tests of the `if` statements of a method, in source order (AST)"""
    _, tree = _module_tree(modname, notes)
    fn = _method_node(_class_node(tree, cname), mname)
    if fn is None:
        return ["<missing>"]
    found = [((n.lineno, n.col_offset), " ".join(ast.unparse(n.test).split())) for n in ast.walk(fn) if isinstance(n, ast.If)]
    found.sort()
    return [t for _, t in found]


def unit3(notes):
    t = {}
    E = importlib.import_module("psd_tools.psd.effects_layer")
    C = importlib.import_module("psd_tools.constants")
    reg = getattr(getattr(E, "EffectsLayer", None), "EFFECT_TYPES", None)
    if not isinstance(reg, dict):
        notes.append("EffectsLayer.EFFECT_TYPES not found: generated as empty")
        reg = {}
    t["effectTypes"] = [(bytes(getattr(k, "value", k)), getattr(v, "__name__", repr(v))) for k, v in reg.items()]
    try:
        t["effectKeys"] = sorted(bytes(m.value) for m in C.EffectOSType)
    except Exception:  # noqa
        notes.append("constants.EffectOSType not found: generated as empty")
        t["effectKeys"] = []
    # the version tests that decide the optional trailers: (class, method, tests of its `if` statements)
    t["effectConditions"] = [(c, m, "; ".join(_conditions("psd_tools.psd.effects_layer", c, m, notes)))
                             for c in ("OuterGlowInfo", "InnerGlowInfo", "BevelInfo") for m in ("read", "write")]
    return t


def registry_rows(names, notes):
    TB = importlib.import_module("psd_tools.psd.tagged_blocks")
    reg = getattr(TB, "TYPES", None)
    if not isinstance(reg, dict):
        notes.append("tagged_blocks.TYPES not found")
        return []
    return sorted((bytes(getattr(k, "value", k)), v.__name__) for k, v in reg.items() if getattr(v, "__name__", "") in names)


def rows4(xs):
    return "[\n  " + ",\n  ".join("(" + ", ".join(_s(y) for y in x) + ")" for x in xs) + "\n]" if xs else "[]"


def gen_payload(ctx):
    notes: list = []
    parts = ["namespace PsdVerif.Generated.Payload\n"]
    summary = {}
    # ---- unit 1
    try:
        t1 = unit1(notes)
    except Exception as e:  # noqa  (a reshaped source: sentinels, the ties fail)
        notes.append(f"unit1 extraction failed: {type(e).__name__}: {e}")
        t1 = {"layerInfoBlockKeys": [], "layerInfoBlockBases": ["<missing>"], "layerInfoBlockRead": "<missing>",
              "layerInfoBlockWrite": "<missing>", "taggedBlockInnerPadding": "<missing>",
              "taggedBlockPayloadWrite": "<missing>", "taggedBlockPayloadRead": "<missing>",
              "layerInfoBodies": [("LayerInfo", "<extractor failed>", "<missing>")]}
    parts.append(
        "/-- keys of `tagged_blocks.TYPES` registered for `LayerInfoBlock`, sorted -/\n"
        f"def layerInfoBlockKeys : List (List UInt8) := [{', '.join(_bytes(k) for k in t1['layerInfoBlockKeys'])}]\n"
        f"def layerInfoBlockBases : List String := [{', '.join(_s(x) for x in t1['layerInfoBlockBases'])}]\n"
        f"/-- body of `LayerInfoBlock.read` -/\ndef layerInfoBlockRead : String := {_s(t1['layerInfoBlockRead'])}\n"
        f"/-- body of `LayerInfoBlock.write` -/\ndef layerInfoBlockWrite : String := {_s(t1['layerInfoBlockWrite'])}\n"
        f"/-- `inner_padding = ...` in `TaggedBlock.write` -/\ndef taggedBlockInnerPadding : String := {_s(t1['taggedBlockInnerPadding'])}\n"
        f"/-- how `TaggedBlock.write` writes a payload object -/\ndef taggedBlockPayloadWrite : String := {_s(t1['taggedBlockPayloadWrite'])}\n"
        f"/-- how `TaggedBlock.read` reads a payload object -/\ndef taggedBlockPayloadRead : String := {_s(t1['taggedBlockPayloadRead'])}\n"
        "/-- the bodies `LayerInfoBlock` inherits: (class, method, statements; docstrings and logger calls dropped) -/\n"
        f"def layerInfoBodies : List (String × String × String) := {rows4(t1['layerInfoBodies'])}\n")
    summary["layerInfoBlockKeys"] = [k.decode("latin1") for k in t1["layerInfoBlockKeys"]]
    # ---- unit 2
    try:
        t2 = unit2(notes)
    except Exception as e:  # noqa
        notes.append(f"unit2 extraction failed: {type(e).__name__}: {e}")
        t2 = {"sectionDividerKinds": [], "sheetColors": [], "colorSpaceLab": 4294967295, "metadataSignatures": [],
              "metadataDescriptorKeys": [], "metadataIntKeys": [], "annotationKinds": [], "annotationMarkers": [],
              "sectionDividerConditions": [("SectionDividerSetting", "<extractor failed>", "<missing>")]}
    bl = lambda xs: "[" + ", ".join(_bytes(x) for x in xs) + "]"
    parts.append(
        f"/-- members of `constants.SectionDivider` -/\ndef sectionDividerKinds : List Nat := {t2['sectionDividerKinds']}\n"
        f"/-- members of `constants.SheetColorType` -/\ndef sheetColors : List Nat := {t2['sheetColors']}\n"
        f"/-- `ColorSpaceID.LAB` -/\ndef colorSpaceLab : Nat := {t2['colorSpaceLab']}\n"
        f"/-- `MetadataSetting._KNOWN_SIGNATURES` -/\ndef metadataSignatures : List (List UInt8) := {bl(t2['metadataSignatures'])}\n"
        f"/-- the keys whose data is one `I` (`if key in (...)` of `MetadataSetting.read`) -/\ndef metadataIntKeys : List (List UInt8) := {bl(t2['metadataIntKeys'])}\n"
        f"/-- `MetadataSetting._KNOWN_KEYS`, sorted -/\ndef metadataDescriptorKeys : List (List UInt8) := {bl(t2['metadataDescriptorKeys'])}\n"
        f"/-- options of the validator of `Annotation.kind` -/\ndef annotationKinds : List (List UInt8) := {bl(t2['annotationKinds'])}\n"
        f"/-- options of the validator of `Annotation.marker` -/\ndef annotationMarkers : List (List UInt8) := {bl(t2['annotationMarkers'])}\n"
        "/-- the tests of the `if` statements of SectionDividerSetting.read / write -/\n"
        f"def sectionDividerConditions : List (String × String × String) := {rows4(t2['sectionDividerConditions'])}\n")
    # ---- unit 3
    try:
        t3 = unit3(notes)
    except Exception as e:  # noqa
        notes.append(f"unit3 extraction failed: {type(e).__name__}: {e}")
        t3 = {"effectTypes": [], "effectKeys": [], "effectConditions": [("<extractor>", "<failed>", "<missing>")]}
    parts.append(
        "/-- `EffectsLayer.EFFECT_TYPES`: (key, class name), in the order of the dict -/\n"
        "def effectTypes : List (List UInt8 × String) := ["
        + ", ".join(f"({_bytes(k)}, {_s(v)})" for k, v in t3["effectTypes"]) + "]\n"
        f"/-- members of `constants.EffectOSType`, sorted -/\ndef effectKeys : List (List UInt8) := {bl(t3['effectKeys'])}\n"
        "/-- the tests of the `if` statements of read / write of the effect infos with a version-dependent trailer -/\n"
        f"def effectConditions : List (String × String × String) := {rows4(t3['effectConditions'])}\n")
    # ---- unit 4
    try:
        C = importlib.import_module("psd_tools.constants")
        indexed = int(C.ColorMode.INDEXED)
    except Exception:  # noqa
        notes.append("constants.ColorMode.INDEXED not found: generated as the sentinel 4294967295")
        indexed = 4294967295
    conds4 = []
    for cn, mn in (("Pattern", "read"), ("Pattern", "write"), ("VirtualMemoryArray", "read"), ("VirtualMemoryArray", "write")):
        try:
            conds4.append((cn, mn, "; ".join(_conditions("psd_tools.psd.patterns", cn, mn, notes))))
        except Exception:  # noqa
            conds4.append((cn, mn, "<missing>"))
    parts.append(f"/-- `ColorMode.INDEXED` -/\ndef colorModeIndexed : Nat := {indexed}\n"
                 "/-- the tests of the `if` statements of read / write of Pattern and VirtualMemoryArray -/\n"
                 f"def patternConditions : List (String × String × String) := {rows4(conds4)}\n")
    # ---- unit 5
    t5 = {"types": [], "data": b"", "external": b"", "alias": b"", "vmin": 4294967295, "vmax": 0}
    try:
        C = importlib.import_module("psd_tools.constants")
        LT = C.LinkedLayerType
        t5["types"] = sorted(bytes(m.value) for m in LT)
        t5["data"], t5["external"], t5["alias"] = bytes(LT.DATA.value), bytes(LT.EXTERNAL.value), bytes(LT.ALIAS.value)
    except Exception:  # noqa
        notes.append("constants.LinkedLayerType not readable: generated as empty")
    try:
        import attr
        LL = importlib.import_module("psd_tools.psd.linked_layer").LinkedLayer
        v = {a.name: a for a in attr.fields(LL)}["version"].validator
        t5["vmin"], t5["vmax"] = int(v.minimum), int(v.maximum)
    except Exception:  # noqa
        notes.append("LinkedLayer.version: no range_ validator found: generated as the empty range")
    conds5 = []
    for mn in ("read", "write"):
        try:
            conds5.append(("LinkedLayer", mn, "; ".join(_conditions("psd_tools.psd.linked_layer", "LinkedLayer", mn, notes))))
        except Exception:  # noqa
            conds5.append(("LinkedLayer", mn, "<missing>"))
    parts.append(f"/-- members of `constants.LinkedLayerType`, sorted -/\ndef linkedLayerTypes : List (List UInt8) := {bl(t5['types'])}\n"
                 f"def linkedData : List UInt8 := {_bytes(t5['data'])}\ndef linkedExternal : List UInt8 := {_bytes(t5['external'])}\n"
                 f"def linkedAlias : List UInt8 := {_bytes(t5['alias'])}\n"
                 f"/-- `range_(min, max)` validator of `LinkedLayer.version` -/\ndef linkedVersionMin : Nat := {t5['vmin']}\n"
                 f"def linkedVersionMax : Nat := {t5['vmax']}\n"
                 "/-- the tests of the `if` statements of `LinkedLayer.read` / `write`, in source order -/\n"
                 f"def linkedConditions : List (String × String × String) := {rows4(conds5)}\n")
    # ---- unit 6
    t6 = {}
    try:
        TB = importlib.import_module("psd_tools.psd.tagged_blocks")
        C = importlib.import_module("psd_tools.constants")
        t6["smartObjectKinds"] = [bytes(x) for x in _validator_options(TB.SmartObjectLayerData, "kind")]
        t6["smartObjectVersions"] = sorted(int(x) for x in _validator_options(TB.SmartObjectLayerData, "version"))
        t6["placedVersions"] = sorted(int(x) for x in _validator_options(TB.PlacedLayerData, "version"))
        t6["placedLayerTypes"] = sorted(int(m.value) for m in C.PlacedLayerType)
        t6["typeToolTextVersions"] = sorted(int(x) for x in _validator_options(TB.TypeToolObjectSetting, "text_version"))
        t6["typeToolWarpVersions"] = sorted(int(x) for x in _validator_options(TB.TypeToolObjectSetting, "warp_version"))
    except Exception as e:  # noqa
        notes.append(f"unit6 extraction failed: {type(e).__name__}: {e}")
        t6 = {"smartObjectKinds": [], "smartObjectVersions": [], "placedVersions": [], "placedLayerTypes": [], "typeToolTextVersions": [],
              "typeToolWarpVersions": []}
    parts.append(
        f"/-- options of the validators of SmartObjectLayerData.kind / .version -/\ndef smartObjectKinds : List (List UInt8) := {bl(t6['smartObjectKinds'])}\n"
        f"def smartObjectVersions : List Nat := {t6['smartObjectVersions']}\n"
        f"/-- options of the validator of PlacedLayerData.version; members of PlacedLayerType -/\ndef placedVersions : List Nat := {t6['placedVersions']}\n"
        f"def placedLayerTypes : List Nat := {t6['placedLayerTypes']}\n"
        f"/-- options of the validators of TypeToolObjectSetting.text_version / .warp_version -/\ndef typeToolTextVersions : List Nat := {t6['typeToolTextVersions']}\n"
        f"def typeToolWarpVersions : List Nat := {t6['typeToolWarpVersions']}\n")
    for unit, names in REGISTRY_CLASSES.items():
        try:
            rows = registry_rows(names, notes)
        except Exception as e:  # noqa
            notes.append(f"{unit} registry extraction failed: {type(e).__name__}")
            rows = []
        parts.append(f"/-- {unit}: `tagged_blocks.TYPES` restricted to the modelled classes: (key, class name), sorted -/\n"
                     f"def {unit}Registry : List (List UInt8 × String) := [\n  "
                     + ",\n  ".join(f"({_bytes(k)}, {_s(v)})" for k, v in rows) + "\n]\n")
        summary[unit + "Registry"] = len(rows)
    # ---- calls of utils primitives, per unit
    for unit, spec in UNITS.items():
        try:
            rows = calls_table(spec, notes)
        except Exception as e:  # noqa
            notes.append(f"{unit} calls extraction failed: {type(e).__name__}: {e}")
            rows = [("<extractor>", "<failed>", "<missing>", "")]
        parts.append(f"/-- {unit}: calls of utils primitives (class, method, primitive, arguments), in source order -/\n"
                     f"def {unit}Calls : List (String × String × String × String) := {rows4(rows)}\n")
        summary[unit + "Calls"] = len(rows)
    parts.append("end PsdVerif.Generated.Payload\n")
    for n in notes:
        ctx.notes.append("extract_payload: " + n)
    ctx.write_generated("Payload", "".join(parts))
    return summary
