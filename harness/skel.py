"""Real psd_tools.psd object graph  ->  the typed file skeleton of lean/PsdVerif/Model/Psd.lean,
serialised as the driver's token stream (see lean/Driver/Psd.lean).

Payload objects (tagged-block data, image-resource data) are opaque in the model: the skeleton
carries the bytes the payload object itself writes, with the same keyword arguments the container
passes (`padding=inner, version=version` / `padding=1`), into a fresh BytesIO.

`NotSkeleton` is raised for shapes the typed skeleton cannot express (they are counted, not hidden).
"""
from __future__ import annotations

import contextlib
import io
import struct

from core import hx


class NotSkeleton(Exception):
    pass


def _b(x) -> str:
    if not isinstance(x, (bytes, bytearray)):
        raise NotSkeleton(f"bytes expected, got {type(x).__name__}")
    return hx(x)


def _n(x) -> str:
    if isinstance(x, bool) or not isinstance(x, int):
        if hasattr(x, "value") and isinstance(x.value, int):
            return str(int(x.value))
        raise NotSkeleton(f"int expected, got {type(x).__name__}")
    return str(int(x))


def _nat(x) -> str:
    s = _n(x)
    if s.startswith("-"):
        raise NotSkeleton("negative value in an unsigned field")
    return s


def _bool(x) -> str:
    if not isinstance(x, bool):
        raise NotSkeleton(f"bool expected, got {type(x).__name__}")
    return "1" if x else "0"


def _opt(x, f):
    return ["0"] if x is None else ["1", *f(x)]


def _list(xs, f):
    out = [str(len(xs))]
    for x in xs:
        out += f(x)
    return out


def payload_bytes(data, **kw) -> bytes:
    if hasattr(data, "write"):
        with io.BytesIO() as f:
            data.write(f, **kw)
            return f.getvalue()
    if isinstance(data, (bytes, bytearray)):
        return bytes(data)
    raise NotSkeleton(f"payload of type {type(data).__name__}")


def keyv(k):
    return getattr(k, "value", k)


def t_header(h):
    return [_b(h.signature), _nat(h.version), _nat(h.channels), _nat(h.height), _nat(h.width), _nat(h.depth),
            _nat(h.color_mode)]


def t_resource(r, encoding):
    return [_b(r.signature), _nat(keyv(r.key)), _b(r.name.encode(encoding)), hx(payload_bytes(r.data, padding=1))]


def t_resources(rs, encoding):
    items = []
    for k in rs:
        r = rs[k]
        if keyv(k) != keyv(r.key):
            raise NotSkeleton("dict key differs from block key")
        items.append(r)
    return _list(items, lambda r: t_resource(r, encoding))


def t_tagged(t, version, padding):
    inner = 1 if padding == 4 else 4
    return [_b(t.signature), _b(keyv(t.key)), hx(payload_bytes(t.data, padding=inner, version=version))]


def tagged_items(tbs):
    items = []
    for k in tbs:
        t = tbs[k]
        if keyv(k) != keyv(t.key):
            raise NotSkeleton("dict key differs from block key")
        items.append(t)
    return items


def t_taggedblocks(tbs, version, padding):
    return _list(tagged_items(tbs), lambda t: t_tagged(t, version, padding))


def flags8(f):
    names = ["pos_relative_to_layer", "mask_disabled", "invert_mask", "user_mask_from_render",
             "parameters_applied", "undocumented_1", "undocumented_2", "undocumented_3"]
    n = 0
    for i, nm in enumerate(names):
        v = getattr(f, nm)
        if not isinstance(v, bool):
            raise NotSkeleton("non-bool flag")
        n |= int(v) << i
    return [str(n)]


def t_layerflags(f):
    return [_bool(getattr(f, nm)) for nm in
            ("transparency_protected", "visible", "obsolete", "photoshop_v5_later", "pixel_data_irrelevant",
             "undocumented_1", "undocumented_2", "undocumented_3")]


def dbits(x):
    if x is None:
        return ["0"]
    if isinstance(x, bool) or not isinstance(x, (int, float)):
        raise NotSkeleton("feather is not a number")
    return ["1", str(struct.unpack(">Q", struct.pack(">d", x))[0])]


def t_maskparams(p):
    return [*_opt(p.user_mask_density, lambda v: [_nat(v)]), *dbits(p.user_mask_feather),
            *_opt(p.vector_mask_density, lambda v: [_nat(v)]), *dbits(p.vector_mask_feather)]


def t_mask(m):
    reals = [m.real_flags, m.real_background_color, m.real_top, m.real_left, m.real_bottom, m.real_right]
    if m.real_flags is None:
        if any(x is not None for x in reals):
            raise NotSkeleton("real_* set without real_flags")
        real = ["0"]
    else:
        if any(x is None for x in reals):
            raise NotSkeleton("real_flags set, other real_* missing")
        real = ["1", *flags8(m.real_flags), _nat(m.real_background_color), _n(m.real_top), _n(m.real_left),
                _n(m.real_bottom), _n(m.real_right)]
    return [_n(m.top), _n(m.left), _n(m.bottom), _n(m.right), _nat(m.background_color), *flags8(m.flags),
            *_opt(m.parameters, t_maskparams), *real]


def _r4(x):
    try:
        (a, b), (c, d) = x
    except Exception:
        raise NotSkeleton("range is not two pairs")
    return [_nat(a), _nat(b), _nat(c), _nat(d)]


def t_ranges(r):
    return [*_opt(r.composite_ranges, _r4), *_opt(r.channel_ranges, lambda cs: _list(list(cs), _r4))]


def t_channelinfo(c):
    return [_n(c.id), _nat(c.length)]


def t_record(r, encoding, version):
    return [_n(r.top), _n(r.left), _n(r.bottom), _n(r.right), *_list(list(r.channel_info), t_channelinfo),
            _b(r.signature), _b(keyv(r.blend_mode)), _nat(r.opacity), _nat(r.clipping), *t_layerflags(r.flags),
            *_opt(r.mask_data, t_mask), *t_ranges(r.blending_ranges), _b(r.name.encode(encoding)),
            *t_taggedblocks(r.tagged_blocks, version, 1)]


def t_channeldata(c):
    return [_nat(c.compression), _b(c.data)]


def t_layerinfo(li, encoding, version):
    return [_n(li.layer_count),
            *_opt(li.layer_records, lambda rs: _list(list(rs), lambda r: t_record(r, encoding, version))),
            *_opt(li.channel_image_data, lambda cs: _list(list(cs), lambda c: _list(list(c), t_channeldata)))]


def t_glm(g):
    return [*_opt(g.overlay_color, lambda cs: _list(list(cs), lambda c: [_nat(c)])), _nat(g.opacity), _nat(g.kind)]


def t_lam(x, encoding, version):
    return [*_opt(x.layer_info, lambda li: t_layerinfo(li, encoding, version)),
            *_opt(x.global_layer_mask_info, t_glm),
            *_opt(x.tagged_blocks, lambda t: t_taggedblocks(t, version, 4))]


def t_image(i):
    return [_nat(i.compression), _b(i.data)]


def t_psd(p, encoding="macroman"):
    v = p.header.version
    return [*t_header(p.header), _b(p.color_mode_data.value), *t_resources(p.image_resources, encoding),
            *t_lam(p.layer_and_mask_information, encoding, v), *t_image(p.image_data)]


def tokens(ts) -> str:
    return " ".join(ts)


@contextlib.contextmanager
def raw_payloads():
    """Parse with every payload kept as raw bytes (what the model's reader returns): the type
    registries of tagged blocks and image resources are emptied for the duration."""
    import psd_tools.psd.image_resources as IR
    import psd_tools.psd.tagged_blocks as TB
    saved_tb, saved_ir = dict(TB.TYPES), dict(IR.TYPES)
    TB.TYPES.clear()
    IR.TYPES.clear()
    try:
        yield
    finally:
        TB.TYPES.update(saved_tb)
        IR.TYPES.update(saved_ir)
