"""Common machinery of the /verif checks (see DESIGN.md section 2).

Every property module `harness/props/Cxx.py` exposes `run(ctx)`; `ctx` is a
`Run`, which owns the Lean build/audit, the model driver, the verdict logic
(known findings, VIOLATION lines, replay files) and the evidence writer.
"""
from __future__ import annotations

import fcntl
import hashlib
import json
import os
import random
import re
import subprocess
import sys
import time
import traceback
from pathlib import Path

VERIF = Path(__file__).resolve().parent.parent
REPO = Path(os.environ.get("PSD_REPO", "/repo"))
LEAN = VERIF / "lean"
DRIVER = LEAN / ".lake" / "build" / "bin" / "driver"
ALLOWED_AXIOMS = {"propext", "Classical.choice", "Quot.sound"}
FORBIDDEN = re.compile(
    r"\bsorry\b|\badmit\b|^\s*axiom\s|native_decide|bv_decide|implemented_by|\bunsafe\s|maxHeartbeats\s+0\b"
)

# make the repository's working tree importable (editable install points there already)
if str(REPO / "src") not in sys.path:
    sys.path.insert(0, str(REPO / "src"))
if str(VERIF / "harness") not in sys.path:
    sys.path.insert(0, str(VERIF / "harness"))


class Infra(Exception):
    """Infrastructure failure: exit 2, never a VIOLATION line."""


def err_class(e: BaseException) -> str:
    """Map a Python exception to the model's error enum (Err.name)."""
    import struct

    if isinstance(e, RecursionError):
        return "RecursionError"
    if isinstance(e, struct.error):
        return "struct.error"
    if isinstance(e, UnicodeError):
        return "UnicodeError"
    if isinstance(e, OverflowError):
        return "OverflowError"
    if isinstance(e, IndexError):
        return "IndexError"
    if isinstance(e, KeyError):
        return "KeyError"
    if isinstance(e, AssertionError):
        return "AssertionError"
    if isinstance(e, (IOError, EOFError)):
        return "IOError"
    if isinstance(e, ValueError):
        return "ValueError"
    if isinstance(e, TypeError):
        return "TypeError"
    if isinstance(e, AttributeError):
        return "AttributeError"
    return "Other:" + type(e).__name__


def hx(b) -> str:
    b = bytes(b)
    return b.hex() if b else "-"


def unhx(s: str) -> bytes:
    return b"" if s == "-" else bytes.fromhex(s)


def strip_lean_comments(src: str) -> str:
    """Remove `--` line comments and (nested) `/- -/` block comments."""
    out = []
    i, n, depth = 0, len(src), 0
    while i < n:
        if src.startswith("/-", i):
            depth += 1
            i += 2
        elif depth and src.startswith("-/", i):
            depth -= 1
            i += 2
        elif depth:
            if src[i] == "\n":
                out.append("\n")
            i += 1
        elif src.startswith("--", i):
            while i < n and src[i] != "\n":
                i += 1
        else:
            out.append(src[i])
            i += 1
    return "".join(out)


class NoTables(dict):
    """What `Run.regenerate` returns when an extractor could not read the source: any key reads as None,
    so that the harness code that only reports the regenerated values keeps going."""

    def __missing__(self, key):
        return None


class Lean:
    """Build, audit and drive the Lean project."""

    def __init__(self):
        self.lock_path = LEAN / ".build.lock"

    def _locked(self, fn):
        LEAN.mkdir(exist_ok=True)
        with open(self.lock_path, "w") as lk:
            fcntl.flock(lk, fcntl.LOCK_EX)
            try:
                return fn()
            finally:
                fcntl.flock(lk, fcntl.LOCK_UN)

    def build(self, targets: list[str], timeout=1500):
        """`lake build targets`; returns (ok, log)."""

        def go():
            import gen_lean_roots
            gen_lean_roots.main()
            p = subprocess.run(
                ["lake", "build", *targets], cwd=LEAN, capture_output=True, text=True, timeout=timeout
            )
            return p.returncode == 0, p.stdout + p.stderr

        try:
            return self._locked(go)
        except subprocess.TimeoutExpired:
            raise Infra("lake build timed out")

    def theorems_of(self, module_file: Path) -> list[str]:
        src = strip_lean_comments(module_file.read_text())
        ns = None
        names = []
        # one namespace per Props file by convention
        m = re.search(r"^namespace\s+(\S+)", src, re.M)
        if m:
            ns = m.group(1)
        for m in re.finditer(r"^\s*(?:@\[[^\]]*\]\s*)?(?:protected\s+|private\s+)?theorem\s+(\S+)", src, re.M):
            nm = m.group(1)
            names.append(f"{ns}.{nm}" if ns else nm)
        return names

    def forbidden_hits(self, files: list[Path]) -> list[str]:
        hits = []
        for f in files:
            src = strip_lean_comments(f.read_text())
            for ln, line in enumerate(src.splitlines(), 1):
                if FORBIDDEN.search(line):
                    hits.append(f"{f.relative_to(LEAN)}:{ln}: {line.strip()[:100]}")
        return hits

    def print_axioms(self, module: str, theorems: list[str]) -> dict[str, list[str] | None]:
        """Axioms each theorem depends on (None when the theorem is missing)."""
        aud = LEAN / ".lake" / "audit"
        aud.mkdir(parents=True, exist_ok=True)
        f = aud / (module.replace(".", "_") + f"_{os.getpid()}.lean")
        body = [f"import {module}"] + [f"#print axioms {t}" for t in theorems]
        f.write_text("\n".join(body) + "\n")
        try:
            p = subprocess.run(
                ["lake", "env", "lean", str(f)], cwd=LEAN, capture_output=True, text=True, timeout=900
            )
        finally:
            try:
                f.unlink()
            except OSError:
                pass
        out = p.stdout + p.stderr
        res: dict[str, list[str] | None] = {t: None for t in theorems}
        # "'X' depends on axioms: [a, b]"  |  "'X' does not depend on any axioms"
        for m in re.finditer(r"'([^']+)' depends on axioms: \[([^\]]*)\]", out, re.S):
            res[m.group(1)] = [a.strip() for a in m.group(2).replace("\n", " ").split(",") if a.strip()]
        for m in re.finditer(r"'([^']+)' does not depend on any axioms", out):
            res[m.group(1)] = []
        return res

    def leanchecker(self, modules: list[str], timeout=1800):
        p = subprocess.run(
            ["lake", "env", "leanchecker", *modules], cwd=LEAN, capture_output=True, text=True, timeout=timeout
        )
        return p.returncode == 0, (p.stdout + p.stderr)[-2000:]


class Driver:
    """The compiled model driver, used in batches (stateless line protocol)."""

    def __init__(self):
        if not DRIVER.exists():
            raise Infra(f"model driver not built: {DRIVER}")

    def batch(self, reqs: list[tuple], timeout=1200) -> list[list[str]]:
        """reqs: (cmd, arg, ...) tuples -> list of answer fields (without id)."""
        if not reqs:
            return []
        lines = []
        for k, r in enumerate(reqs):
            lines.append("\t".join([str(k), *[str(x) for x in r]]))
        p = subprocess.run(
            [str(DRIVER)], input=("\n".join(lines) + "\n").encode(), capture_output=True, timeout=timeout
        )
        if p.returncode != 0:
            raise Infra(f"driver exited {p.returncode}: {p.stderr[-500:]!r}")
        out = p.stdout.decode().split("\n")
        if out and out[-1] == "":
            out.pop()
        if len(out) != len(reqs):
            raise Infra(f"driver answered {len(out)} lines for {len(reqs)} requests")
        res = []
        for k, l in enumerate(out):
            parts = l.split("\t")
            if parts[0] != str(k):
                raise Infra(f"driver answer out of order at {k}: {l[:80]}")
            res.append(parts[1:])
        return res


def load_findings():
    p = VERIF / "known_findings.json"
    if not p.exists():
        return []
    return json.loads(p.read_text())["findings"]


class Run:
    def __init__(self, prop: str, tier: str, seed: int):
        self.prop = prop
        self.tier = tier
        self.seed = seed
        self.t0 = time.time()
        self.rng = random.Random(f"{prop}:{seed}")
        self.lean = Lean()
        self._driver = None
        # proof side
        self.theorems: list[str] = []
        self.axioms: dict = {}
        self.proof_failures: list[str] = []   # theorem names / build errors
        self.build_log_tail = ""
        self.generated: dict = {}
        # correspondence / search side
        self.evaluations = 0
        self.distinct: set = set()
        self.histograms: dict[str, dict] = {}
        self.samples: list = []
        self.corr_cases = 0
        self.corr_disagreements: list = []     # (what, case)
        self.failures: list = []               # concrete failing inputs: dict(signature, what, input, observed, expected)
        self.notes: list[str] = []
        self.skipped: list[str] = []
        self.assumptions: list[str] = []
        self.trusted_base: list[str] = []
        self.rule = ""
        self.extra: dict = {}
        self.exhaustive = False
        self.model_coverage: dict = {}

    # ---- helpers for property modules -------------------------------------------------
    @property
    def quick(self):
        return self.tier == "quick"

    def driver(self) -> Driver:
        if self._driver is None:
            self._driver = Driver()
        return self._driver

    def hist(self, name: str, key, n=1):
        h = self.histograms.setdefault(name, {})
        h[str(key)] = h.get(str(key), 0) + n

    def count(self, case_key=None, nontrivial=True, n=1):
        self.evaluations += n
        if case_key is not None and nontrivial:
            if len(self.distinct) < 2_000_000:
                self.distinct.add(case_key if isinstance(case_key, (str, bytes, int, tuple)) else repr(case_key))

    def sample(self, s):
        if len(self.samples) < 12:
            self.samples.append(s)

    def disagree(self, what: str, case):
        """Model and implementation differ on `case` (not by itself a violation)."""
        if len(self.corr_disagreements) < 50:
            self.corr_disagreements.append({"what": what, "case": case})
        else:
            self.corr_disagreements.append(None)

    def fail(self, signature: str, what: str, input, observed=None, expected=None, how="search"):
        """A concrete input on which the real implementation violates the property."""
        for f in self.failures:
            if f["signature"] == signature:
                f["count"] += 1
                return
        self.failures.append(
            dict(signature=signature, what=what, input=input, observed=observed, expected=expected,
                 how_found=how, count=1)
        )

    # ---- Lean side -----------------------------------------------------------------
    def write_generated(self, name: str, content: str):
        """Rewrite Generated/<name>.lean only when its content changes."""
        f = LEAN / "PsdVerif" / "Generated" / f"{name}.lean"
        f.parent.mkdir(parents=True, exist_ok=True)
        header = "-- REGENERATED from /repo by harness/extract.py on every run. Do not edit.\n"
        content = header + content

        def go():
            if not f.exists() or f.read_text() != content:
                f.write_text(content)
                return True
            return False

        changed = self.lean._locked(go)
        self.generated[name] = hashlib.sha1(content.encode()).hexdigest()[:12]
        return changed

    def regenerate(self, fn, *args, **kw):
        """Run an extractor. When the source no longer has the shape it reads (renamed function, rewritten
        expression, ...), that is a broken tie, not an infrastructure failure: the previous Generated file stays,
        the failure is recorded as an unmet obligation, and the run goes on to correspondence and search."""
        try:
            return fn(self, *args, **kw)
        except Infra as e:
            self.proof_failures.append(f"extractor {getattr(fn, '__name__', fn)} could not regenerate from the current source: {e}")
            self.notes.append(f"Generated file left as it was: {e}")
            return NoTables()
        except Exception as e:  # noqa
            self.proof_failures.append(f"extractor {getattr(fn, '__name__', fn)} failed on the current source: {type(e).__name__}: {e}")
            return NoTables()

    def prove(self, modules: list[str], extra_files: list[str] = ()):
        """Build the property modules (+ driver), audit sources and axioms."""
        files = []
        ok, log = self.lean.build(modules + ["driver"])
        self.build_log_tail = log[-3000:]
        for mod in modules:
            f = LEAN / (mod.replace(".", "/") + ".lean")
            files.append(f)
            self.theorems += self.lean.theorems_of(f)
        if not ok:
            # which theorems failed: parse "error: File:line:col" and map to the enclosing theorem
            failed = self._failed_theorems(log, files)
            self.proof_failures += failed or ["<build failed: see log>"]
            if not DRIVER.exists():
                raise Infra("driver could not be built:\n" + log[-1500:])
        # sources audit: property files and every model/lemma file they import (all of PsdVerif/)
        allfiles = sorted((LEAN / "PsdVerif").rglob("*.lean")) + sorted((LEAN / "Driver").rglob("*.lean"))
        hits = self.lean.forbidden_hits(allfiles)
        if hits:
            self.proof_failures += [f"forbidden construct: {h}" for h in hits]
        if ok:
            for mod in modules:
                f = LEAN / (mod.replace(".", "/") + ".lean")
                ths = self.lean.theorems_of(f)
                ax = self.lean.print_axioms(mod, ths)
                for t, a in ax.items():
                    self.axioms[t] = a
                    if a is None:
                        self.proof_failures.append(f"{t}: not found by #print axioms")
                    elif not set(a) <= ALLOWED_AXIOMS:
                        self.proof_failures.append(f"{t}: depends on {sorted(set(a) - ALLOWED_AXIOMS)}")
        return ok

    def _failed_theorems(self, log: str, files: list[Path]) -> list[str]:
        failed = []
        for m in re.finditer(r"error: (\S+?\.lean):(\d+):(\d+): (.*)", log):
            path, line, msg = m.group(1), int(m.group(2)), m.group(4)
            f = LEAN / path
            name = f"{path}:{line}"
            if f.exists():
                src = f.read_text().splitlines()
                for k in range(min(line, len(src)) - 1, -1, -1):
                    mm = re.match(r"\s*(?:theorem|lemma|def|instance|example)\s+(\S+)", src[k])
                    if mm:
                        name = f"{path}:{mm.group(1)}"
                        break
            failed.append(f"{name}: {msg[:160]}")
        return failed

    def recheck(self, modules: list[str]):
        ok, log = self.lean.leanchecker(modules)
        self.extra["leanchecker"] = {"modules": modules, "ok": ok, "tail": log[-400:]}
        if not ok:
            self.proof_failures.append("leanchecker rejected: " + log[-300:])

    # ---- verdict ----------------------------------------------------------------------
    def finish(self) -> int:
        findings = load_findings()
        known = {f["signature"]: f for f in findings if f["property"] == self.prop and f.get("status") == "known"}
        (VERIF / "replays").mkdir(exist_ok=True)
        lines = []
        violations = 0
        known_seen = []
        for f in self.failures:
            if f["signature"] in known:
                known_seen.append(f["signature"])
                lines.append(f"KNOWN-FINDING: property={self.prop} {f['signature']}: {known[f['signature']]['what']}")
                continue
            rp = self._write_replay(kind="failing-input", **f)
            lines.append(f"VIOLATION property={self.prop} replay={rp}")
            violations += 1
        real_disagreements = [d for d in self.corr_disagreements]
        if violations == 0 and (self.proof_failures or real_disagreements):
            # proof or correspondence broken and the search found nothing (that is not already known)
            rp = self._write_replay(
                kind="broken-obligation",
                signature=f"{self.prop}/broken-tie",
                what="proof obligation or model/implementation correspondence no longer checks",
                input=None,
                observed={"proof_failures": self.proof_failures[:20],
                          "correspondence_disagreements": [d for d in real_disagreements if d][:10],
                          "disagreement_count": len(real_disagreements),
                          "build_log_tail": self.build_log_tail[-1500:] if self.proof_failures else ""},
                expected="all property theorems check and model = implementation on every generated case",
                how_found="build/audit/correspondence", count=1,
            )
            lines.append(f"VIOLATION property={self.prop} replay={rp} no-failing-input-found")
            violations += 1
        self._write_evidence(violations, known_seen)
        for l in lines:
            print(l)
        sys.stdout.flush()
        return 1 if violations else 0

    def _write_replay(self, **f) -> str:
        body = dict(property=self.prop, seed=self.seed, tier=self.tier, **f)
        body["replay_cmd"] = f"./check {self.prop} --replay <this file>"
        blob = json.dumps(body, sort_keys=True, default=str)
        h = hashlib.sha1(blob.encode()).hexdigest()[:12]
        p = VERIF / "replays" / f"{self.prop}-{h}.json"
        p.write_text(json.dumps(body, indent=1, default=str))
        return str(p.relative_to(VERIF))

    def _write_evidence(self, violations: int, known_seen):
        obligations = len(self.theorems)
        failed_names = " ".join(self.proof_failures)
        discharged = 0
        for t in self.theorems:
            a = self.axioms.get(t)
            if a is not None and set(a) <= ALLOWED_AXIOMS:
                discharged += 1
        cov = {
            "obligations": obligations,
            "discharged": discharged,
            "checker_cmd": "cd /verif/lean && lake build <Props modules> && lake env lean <#print axioms audit>"
                           + (" && lake env leanchecker <modules>" if "leanchecker" in self.extra else ""),
            "trusted_base": self.trusted_base,
            "theorems": {t: self.axioms.get(t) for t in self.theorems},
            "proof_failures": self.proof_failures[:30],
            "generated_from_source": self.generated,
            "evaluations": self.evaluations,
            "distinct_nontrivial": len(self.distinct),
            "rule": self.rule,
            "samples": self.samples or ["(no correspondence cases in this run)"],
            "correspondence_cases": self.corr_cases,
            "correspondence_disagreements": len(self.corr_disagreements),
            "histograms": self.histograms,
            "model_coverage": self.model_coverage,
            "skipped": self.skipped,
            "notes": self.notes,
            "known_findings_seen": known_seen,
            "failures": [
                {k: (v if k != "input" else _short(v)) for k, v in f.items()} for f in self.failures[:20]
            ],
            "exhaustive": self.exhaustive,
        }
        if discharged == 0:
            # nothing could be audited (the build is broken): the proof-level keys would claim nothing;
            # the schema then falls back to the exploration-style counts
            del cov["discharged"]
            cov["discharged_count"] = 0
        cov.update(self.extra)
        ev = {
            "property_id": self.prop,
            "tier": self.tier,
            "seed": self.seed,
            "level": "proof",
            "coverage": cov,
            "assumptions": self.assumptions,
            "wall_s": round(time.time() - self.t0, 2),
            "violations": violations,
        }
        (VERIF / "evidence").mkdir(exist_ok=True)
        (VERIF / "evidence" / f"{self.prop}.json").write_text(json.dumps(ev, indent=1, default=str))


def _short(v, n=400):
    s = json.dumps(v, default=str)
    return v if len(s) <= n else s[:n] + "…"


def ddmin(seq, test):
    """Delta debugging: smallest subsequence of `seq` for which test(sub) is True."""
    seq = list(seq)
    n = 2
    while len(seq) >= 2:
        chunk = max(1, len(seq) // n)
        subsets = [seq[i:i + chunk] for i in range(0, len(seq), chunk)]
        reduced = False
        for i in range(len(subsets)):
            comp = [x for j, s in enumerate(subsets) if j != i for x in s]
            if comp and test(comp):
                seq = comp
                n = max(n - 1, 2)
                reduced = True
                break
        if not reduced:
            if n >= len(seq):
                break
            n = min(len(seq), n * 2)
    return seq
