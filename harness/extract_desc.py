"""C01 (descriptors) extractor: the table-shaped facts of `psd_tools/psd/descriptor.py`, read from the live
module and from its AST on every run -> lean/PsdVerif/Generated/Descriptor.lean.

* `types`            : `descriptor.TYPES` (OSType value -> class name), sorted by OSType value
* `osTypes`          : the members of `constants.OSType`, sorted (every member must have a class: otherwise
                       `TYPES.get(ostype)` is None and the reader raises AttributeError, not ValueError)
* `unitValues`       : the members of `terminology.Unit`
* `enumValues`       : the members of `terminology.Enum`
* `blockVersions`, `block2DataVersions` : the options of the `in_` validators of DescriptorBlock.version /
                       DescriptorBlock2.data_version; `block2HasVersionValidator`
* `formats`          : every `read_fmt` / `write_fmt` format literal of the module, per class and method (AST)
* `lengthBlockCalls` : the keyword arguments given to read_length_block / write_length_block in RawData (AST)
* `unicodePaddings`  : the `padding=` literals given to read/write_unicode_string in the module (AST; default 1)

A source that no longer has the shape read here is *not* an infrastructure error: the table is emitted with what
was found (possibly empty), the tie theorems of Props/C01Descriptor.lean then fail, and the run goes on.
"""
from __future__ import annotations

import ast
import importlib
import inspect


def _bytes(b) -> str:
    return "[" + ", ".join(str(x) for x in bytes(b)) + "]"


def _blist(bs, per=8) -> str:
    bs = list(bs)
    rows = [", ".join(_bytes(b) for b in bs[i:i + per]) for i in range(0, len(bs), per)]
    return "[\n  " + ",\n  ".join(rows) + "\n]" if rows else "[]"


def _s(x: str) -> str:
    return '"' + x.replace("\\", "\\\\").replace('"', '\\"') + '"'


def _fmt_literal(node):
    """'d' | '%dd' % n  -> the literal text"""
    if isinstance(node, ast.Constant) and isinstance(node.value, str):
        return node.value
    if isinstance(node, ast.BinOp) and isinstance(node.op, ast.Mod):
        return _fmt_literal(node.left)
    return None


def _validator_options(K, field):
    import attr
    try:
        f = {a.name: a for a in attr.fields(K)}[field]
    except Exception:  # noqa
        return None
    v = f.validator
    if v is None:
        return None
    o = getattr(v, "options", None)
    if o is None:
        return None
    try:
        return sorted(int(x) for x in o)
    except Exception:  # noqa
        return None


def tables(notes: list):
    D = importlib.import_module("psd_tools.psd.descriptor")
    C = importlib.import_module("psd_tools.constants")
    T = importlib.import_module("psd_tools.terminology")
    t = {}
    reg = getattr(D, "TYPES", None)
    if not isinstance(reg, dict):
        notes.append("descriptor.TYPES not found: generated as empty")
        reg = {}
    t["types"] = sorted((bytes(getattr(k, "value", k)), getattr(v, "__name__", repr(v))) for k, v in reg.items())
    ost = getattr(C, "OSType", None)
    if ost is None:
        notes.append("constants.OSType not found: generated as empty")
    t["osTypes"] = sorted(bytes(m.value) for m in ost) if ost is not None else []
    for nm, key in (("Unit", "unitValues"), ("Enum", "enumValues")):
        E = getattr(T, nm, None)
        if E is None:
            notes.append(f"terminology.{nm} not found: generated as empty")
        t[key] = sorted(bytes(m.value) for m in E) if E is not None else []
    B1 = getattr(D, "DescriptorBlock", None)
    B2 = getattr(D, "DescriptorBlock2", None)
    t["blockVersions"] = (_validator_options(B1, "version") if B1 else None)
    t["block2DataVersions"] = (_validator_options(B2, "data_version") if B2 else None)
    t["block2VersionValidated"] = bool(B2 and _validator_options(B2, "version") is not None)
    for k in ("blockVersions", "block2DataVersions"):
        if t[k] is None:
            notes.append(f"{k}: no `in_` validator found (generated as the empty list)")
            t[k] = []
    # ---- AST: formats and keyword literals
    try:
        tree = ast.parse(inspect.getsource(D))
    except Exception as e:  # noqa
        notes.append(f"descriptor.py source not readable: {type(e).__name__}")
        tree = ast.Module(body=[], type_ignores=[])
    fmts, lb, up = [], [], []
    for cls in [n for n in tree.body if isinstance(n, ast.ClassDef)]:
        for fn in [n for n in cls.body if isinstance(n, ast.FunctionDef)]:
            for call in [n for n in ast.walk(fn) if isinstance(n, ast.Call)]:
                name = getattr(call.func, "id", None)
                if name == "read_fmt" and call.args:
                    fmts.append((cls.name, fn.name, "read_fmt", _fmt_literal(call.args[0]) or "?"))
                elif name == "write_fmt" and len(call.args) >= 2:
                    fmts.append((cls.name, fn.name, "write_fmt", _fmt_literal(call.args[1]) or "?"))
                elif name in ("read_length_block", "write_length_block"):
                    kws = ",".join(sorted(f"{k.arg}={ast.unparse(k.value)}" for k in call.keywords))
                    lb.append((cls.name, fn.name, name, kws))
                elif name in ("read_unicode_string", "write_unicode_string"):
                    pads = [ast.unparse(k.value) for k in call.keywords if k.arg == "padding"]
                    up.append((cls.name, fn.name, name, pads[0] if pads else "default"))
    for fn in [n for n in tree.body if isinstance(n, ast.FunctionDef)]:
        for call in [n for n in ast.walk(fn) if isinstance(n, ast.Call)]:
            name = getattr(call.func, "id", None)
            if name == "read_fmt" and call.args:
                fmts.append(("<module>", fn.name, "read_fmt", _fmt_literal(call.args[0]) or "?"))
            elif name == "write_fmt" and len(call.args) >= 2:
                fmts.append(("<module>", fn.name, "write_fmt", _fmt_literal(call.args[1]) or "?"))
    t["formats"] = sorted(fmts)
    t["lengthBlockCalls"] = sorted(lb)
    t["unicodePaddings"] = sorted(set(x[3] for x in up))
    return t


def gen_descriptor(ctx):
    notes: list = []
    t = tables(notes)
    for n in notes:
        ctx.notes.append("extract_desc: " + n)

    def rows4(xs):
        return "[\n  " + ",\n  ".join("(" + ", ".join(_s(y) for y in x) + ")" for x in xs) + "\n]" if xs else "[]"
    src = (
        "namespace PsdVerif.Generated.Descriptor\n"
        "/-- `descriptor.TYPES`: (OSType value, registered class name), sorted by value -/\n"
        "def types : List (List UInt8 × String) := [\n  "
        + ",\n  ".join(f"({_bytes(k)}, {_s(v)})" for k, v in t["types"]) + "\n]\n"
        f"/-- the members of `constants.OSType`, sorted -/\ndef osTypes : List (List UInt8) := {_blist(t['osTypes'])}\n"
        f"/-- the members of `terminology.Unit`, sorted -/\ndef unitValues : List (List UInt8) := {_blist(t['unitValues'])}\n"
        f"/-- the members of `terminology.Enum`, sorted -/\ndef enumValues : List (List UInt8) := {_blist(t['enumValues'])}\n"
        f"/-- options of the validator of `DescriptorBlock.version` -/\ndef blockVersions : List Nat := {t['blockVersions']}\n"
        f"/-- options of the validator of `DescriptorBlock2.data_version` -/\ndef block2DataVersions : List Nat := {t['block2DataVersions']}\n"
        f"/-- does `DescriptorBlock2.version` have a validator? -/\ndef block2VersionValidated : Bool := {'true' if t['block2VersionValidated'] else 'false'}\n"
        "/-- every `read_fmt` / `write_fmt` format literal of descriptor.py: (class, method, primitive, format) -/\n"
        f"def formats : List (String × String × String × String) := {rows4(t['formats'])}\n"
        "/-- keyword arguments of the length-block calls: (class, method, primitive, keywords) -/\n"
        f"def lengthBlockCalls : List (String × String × String × String) := {rows4(t['lengthBlockCalls'])}\n"
        "/-- the `padding=` arguments given to read/write_unicode_string in descriptor.py -/\n"
        f"def unicodePaddings : List String := [{', '.join(_s(x) for x in t['unicodePaddings'])}]\n"
        "end PsdVerif.Generated.Descriptor\n"
    )
    ctx.write_generated("Descriptor", src)
    return {
        "types": {k.decode("latin1"): v for k, v in t["types"]},
        "osTypes": len(t["osTypes"]), "unitValues": [x.decode("latin1") for x in t["unitValues"]],
        "enumValues": len(t["enumValues"]), "blockVersions": t["blockVersions"],
        "block2DataVersions": t["block2DataVersions"], "formats": len(t["formats"]),
    }
