"""Seeded generators of whole documents built from the REAL psd_tools.psd classes (C01/C03).

Every document comes with a set of *forced* tags: the (F) clauses of `PSD.WF` it violates on
purpose (see lean/PsdVerif/Model/Psd.lean). A document with an empty set satisfies every clause of
kind (i) validator, (ii) on-disk width, (iii) format-prescribed consistency by construction, and the
harness cross-checks that the model's decidable `PSD.WF` agrees (so `WF` is neither vacuous nor
stricter than announced).
"""
from __future__ import annotations

import copy

I32 = [-2**31, -2**31 + 1, -1, 0, 1, 2**31 - 2, 2**31 - 1]
ENCODINGS = ["macroman", "maccyrillic", "utf_8", "shift_jis", "ascii"]


def mods():
    import psd_tools.constants as C
    import psd_tools.psd as P
    import psd_tools.psd.header as H
    import psd_tools.psd.image_resources as IR
    import psd_tools.psd.layer_and_mask as LM
    import psd_tools.psd.tagged_blocks as TB
    import psd_tools.psd.image_data as ID
    import psd_tools.psd.color_mode_data as CM
    return C, P, H, IR, LM, TB, ID, CM


class Gen:
    def __init__(self, rng, pool=None):
        self.r = rng
        self.pool = pool or {"tagged": [], "resources": []}
        (self.C, self.P, self.H, self.IR, self.LM, self.TB, self.ID, self.CM) = mods()
        # a renamed / removed _BIG_KEYS is a change of the source (reported by the extractor), not an infrastructure error:
        # the generator then falls back to the specification's list so that such keys are still exercised
        self.big = sorted(getattr(k, "value", k) for k in getattr(self.TB.TaggedBlock, "_BIG_KEYS", ())) or sorted(
            [b"LMsk", b"Lr16", b"Lr32", b"Layr", b"Mt16", b"Mt32", b"Mtrn", b"Alph", b"FMsk", b"lnk2", b"FEid", b"FXid", b"PxSD"])
        self.tags = {m.value for m in self.C.Tag}

    # ---- scalars ----------------------------------------------------------------------
    def edge(self, lo, hi):
        r = self.r
        c = r.random()
        if c < 0.5:
            return r.choice([lo, min(lo + 1, hi), max(hi - 1, lo), hi])
        return r.randint(lo, hi)

    def i32(self):
        return self.r.choice(I32) if self.r.random() < 0.5 else self.r.randint(-5000, 5000)

    def blob(self, sizes=(0, 1, 2, 3, 4, 5, 7, 8, 16, 33)):
        n = self.r.choice(sizes)
        return bytes(self.r.randrange(256) for _ in range(n))

    def name(self, encoding):
        r = self.r
        n = r.choice([0, 0, 1, 2, 3, 4, 5, 6, 7, 8, 31, 254, 255])
        s = "".join(r.choice("abcXYZ 019_-") for _ in range(n))
        if n and encoding in ("macroman", "utf_8") and r.random() < 0.2:
            s = s[:-1] + "é"
            while len(s.encode(encoding)) > 255:
                s = s[1:]
        return s

    # ---- parts --------------------------------------------------------------------------
    def header(self, version=None):
        r = self.r
        import attr
        fld = {f.name: f for f in attr.fields(self.H.FileHeader)}      # the live validator ranges, not copies of them

        def rng(nm, lo, hi):
            v = fld[nm].validator
            return (int(getattr(v, "minimum", lo)), int(getattr(v, "maximum", hi)))
        return self.H.FileHeader(
            version=version or r.choice([1, 2]),
            channels=self.edge(*rng("channels", 1, 56)), height=self.edge(*rng("height", 1, 300000)),
            width=self.edge(*rng("width", 1, 300000)),
            depth=r.choice([1, 8, 16, 32]), color_mode=r.choice(list(self.C.ColorMode)))

    def resources(self, encoding, n=None, typed=True):
        r = self.r
        n = r.choice([0, 1, 2, 3, 5]) if n is None else n
        items, used = [], set()
        for _ in range(n):
            if typed and self.pool["resources"] and r.random() < 0.4:
                key, data = r.choice(self.pool["resources"])
                data = copy.deepcopy(data)
            else:
                key = self.edge(0, 65535) if r.random() < 0.4 else r.choice([1000, 1005, 1036, 2000, 2999, 4000, 7000])
                data = self.blob()
            kv = getattr(key, "value", key)
            if kv in used:
                continue
            used.add(kv)
            sig = r.choice([b"8BIM"] * 4 + [b"MeSa", b"AgHg", b"PHUT", b"DCSR"])
            items.append((key, self.IR.ImageResource(signature=sig, key=key, name=self.name(encoding), data=data)))
        return self.IR.ImageResources(items)

    def unknown_key(self):
        while True:
            k = bytes(self.r.choice(b"abcdwxyzQ019 ") for _ in range(4))
            if k not in self.tags:
                return k

    def tagged_blocks(self, version, n=None, typed=True, big=None):
        r = self.r
        n = r.choice([0, 0, 1, 2, 3]) if n is None else n
        items, used = [], set()
        for _ in range(n):
            c = r.random()
            if typed and self.pool["tagged"] and c < 0.35:
                key, data = r.choice(self.pool["tagged"])
                data = copy.deepcopy(data)
            elif c < 0.6 or big:
                # raw bytes under a key of the 8-byte-length set (unregistered ones only keep bytes)
                key = r.choice(self.big)
                data = self.blob()
                if key in self.TB.TYPES and typed is False:
                    pass
            else:
                key = self.unknown_key()
                data = self.blob()
            kv = getattr(key, "value", key)
            if kv in used:
                continue
            used.add(kv)
            sig = r.choice([b"8BIM", b"8BIM", b"8B64"])
            items.append((key, self.TB.TaggedBlock(signature=sig, key=key, data=data)))
        return self.TB.TaggedBlocks(items)

    def mask_flags(self, params=None):
        r = self.r
        f = [r.random() < 0.5 for _ in range(8)]
        if params is not None:
            f[4] = params
        return self.LM.MaskFlags(*f)

    def mask_params(self, variant=None):
        r = self.r
        variant = r.randrange(16) if variant is None else variant
        fl = lambda: r.choice([0.0, 1.0, -2.5, 1e-300, 255.0, float(r.randint(0, 10 ** 6)) / 7])
        return self.LM.MaskParameters(
            self.edge(0, 255) if variant & 1 else None, fl() if variant & 2 else None,
            self.edge(0, 255) if variant & 4 else None, fl() if variant & 8 else None)

    def mask(self, kind=None):
        """kind: plain | real | params | real+params"""
        r = self.r
        kind = kind or r.choice(["plain", "real", "params", "real+params"])
        has_params = "params" in kind
        real = {}
        if "real" in kind:
            real = dict(real_flags=self.mask_flags(), real_background_color=self.edge(0, 255), real_top=self.i32(),
                        real_left=self.i32(), real_bottom=self.i32(), real_right=self.i32())
        if has_params:
            if "real" in kind:
                p = self.mask_params()
            else:
                # format: without the real fields the block is 20 bytes: at most the density byte
                p = self.mask_params(r.choice([0, 1, 4, 5, 2, 8, 3, 6, 9, 12, 7, 13]))
        else:
            p = None
        return self.LM.MaskData(top=self.i32(), left=self.i32(), bottom=self.i32(), right=self.i32(),
                                background_color=self.edge(0, 255), flags=self.mask_flags(has_params),
                                parameters=p, **real)

    def range4(self):
        e = lambda: self.edge(0, 65535)
        return [(e(), e()), (e(), e())]

    def ranges(self, kind=None):
        r = self.r
        kind = kind or r.choice(["default", "empty", "n"])
        if kind == "default":
            return self.LM.LayerBlendingRanges()
        if kind == "empty":
            return self.LM.LayerBlendingRanges(None, None)
        return self.LM.LayerBlendingRanges(self.range4(), [self.range4() for _ in range(r.choice([0, 1, 3, 5]))])

    def record(self, version, encoding, nch=None, typed=True, mask=None, ranges=None, ntb=None):
        r = self.r
        nch = r.choice([0, 1, 3, 4, 5]) if nch is None else nch
        ids = list(self.C.ChannelID)
        cis = [self.LM.ChannelInfo(id=r.choice(ids), length=r.choice([0, 1, 2, 77, 2 ** 32 - 1])) for _ in range(nch)]
        flags = self.LM.LayerFlags(*[r.random() < 0.5 for _ in range(8)])
        md = self.mask(mask) if (mask or r.random() < 0.5) else None
        return self.LM.LayerRecord(
            top=self.i32(), left=self.i32(), bottom=self.i32(), right=self.i32(), channel_info=cis,
            signature=b"8BIM", blend_mode=r.choice(list(self.C.BlendMode)), opacity=self.edge(0, 255),
            clipping=r.choice(list(self.C.Clipping)), flags=flags, mask_data=md,
            blending_ranges=self.ranges(ranges), name=self.name(encoding),
            tagged_blocks=self.tagged_blocks(version, ntb, typed))

    def channel_data(self):
        return self.LM.ChannelData(compression=self.r.choice([0, 1, 2, 3]), data=self.blob((0, 0, 1, 2, 5, 9, 64)))

    def layer_info(self, version, encoding, n=None, typed=True, **kw):
        r = self.r
        n = r.choice([0, 1, 1, 2, 4]) if n is None else n
        if n == 0:
            return self.LM.LayerInfo()
        recs = [self.record(version, encoding, typed=typed, **kw) for _ in range(n)]
        chans = [self.LM.ChannelDataList([self.channel_data() for _ in rec.channel_info]) for rec in recs]
        return self.LM.LayerInfo(r.choice([n, -n]), self.LM.LayerRecords(recs), self.LM.ChannelImageData(chans))

    def glm(self, kind=None):
        r = self.r
        kind = kind or r.choice(["none", "color"])
        if kind == "none":
            return self.LM.GlobalLayerMaskInfo()
        return self.LM.GlobalLayerMaskInfo([self.edge(0, 65535) for _ in range(5)], self.edge(0, 65535),
                                           r.choice(list(self.C.GlobalLayerMaskKind)))

    def image_data(self, small=False):
        r = self.r
        n = r.choice([0, 1, 2, 3]) if small else r.choice([11, 12, 40, 300])
        return self.ID.ImageData(compression=r.choice([0, 1, 2, 3]), data=bytes(r.randrange(256) for _ in range(n)))

    # ---- documents ------------------------------------------------------------------------
    def document(self, version=None, typed=True, force=None):
        """-> (PSD, encoding, forced-tags). `force`: the name of an (F) clause to violate."""
        r = self.r
        version = version or r.choice([1, 2])
        encoding = r.choice(ENCODINGS)
        forced = set()
        hdr = self.header(version)
        cmd = self.CM.ColorModeData(self.blob((0, 0, 1, 2, 3, 768)))
        res = self.resources("ascii" if encoding == "ascii" else encoding, typed=typed)
        shape = r.choice(["empty", "layers", "layers", "layers", "nolayers+blocks"])
        img = self.image_data()
        if shape == "empty":
            lam = self.LM.LayerAndMaskInformation()
        else:
            li = self.layer_info(version, encoding, n=0 if shape == "nolayers+blocks" else None, typed=typed)
            tbs = self.tagged_blocks(version, typed=typed)
            glm = self.glm()
            if len(tbs) == 0 and r.random() < 0.3:
                glm = None                                   # no global mask section: only with no blocks after it
            lam = self.LM.LayerAndMaskInformation(li, glm, tbs)
        doc = self.P.PSD(hdr, cmd, res, lam, img)
        if force:
            forced = self.apply_force(doc, force, version, encoding)
        return doc, encoding, forced

    FORCES = ["count0-empty-lists", "ranges-composite-without-channels", "ranges-empty-list-without-composite",
              "glm-defaults-not-stored", "glm-gate-short-tail", "lam-tagged-none", "lam-empty-dict-without-layer-info"]

    def apply_force(self, doc, force, version, encoding):
        LM = self.LM
        lam = doc.layer_and_mask_information
        if force == "lam-empty-dict-without-layer-info":
            doc.layer_and_mask_information = LM.LayerAndMaskInformation(None, None, self.TB.TaggedBlocks())
            return {"C01/none-vs-empty/lam-tagged-blocks-empty-without-layer-info"}
        if lam.layer_info is None:
            lam = doc.layer_and_mask_information = LM.LayerAndMaskInformation(
                self.layer_info(version, encoding, n=1, typed=False), self.glm(), self.TB.TaggedBlocks())
        if force == "count0-empty-lists":
            lam.layer_info = LM.LayerInfo(0, LM.LayerRecords([]), LM.ChannelImageData([]))
            return {"C01/none-vs-empty/layer-info-count0-empty-lists"}
        if force == "lam-tagged-none":
            lam.tagged_blocks = None
            return {"C01/none-vs-empty/lam-tagged-blocks-none"}
        if force == "glm-defaults-not-stored":
            lam.global_layer_mask_info = LM.GlobalLayerMaskInfo(None, 7, 0)
            if lam.tagged_blocks is None:
                lam.tagged_blocks = self.TB.TaggedBlocks()
            return {"C01/glm/opacity-kind-not-stored-without-overlay"}
        if force == "glm-gate-short-tail":
            lam.global_layer_mask_info = LM.GlobalLayerMaskInfo()
            lam.tagged_blocks = self.TB.TaggedBlocks()
            doc.image_data = self.image_data(small=True)
            # repaired (repo 60bbb32): the gate is `fp.tell() + 4 <= end_pos`; kept as a regression case that must be
            # well formed and round-trip
            return set()
        # blending ranges: need a record
        li = lam.layer_info
        if not li.layer_records:
            lam.layer_info = li = self.layer_info(version, encoding, n=1, typed=False)
        rec = li.layer_records[0]
        if force == "ranges-composite-without-channels":
            rec.blending_ranges = LM.LayerBlendingRanges(self.range4(), None)
            return {"C01/none-vs-empty/blending-ranges"}
        if force == "ranges-empty-list-without-composite":
            rec.blending_ranges = LM.LayerBlendingRanges(None, [])
            return {"C01/none-vs-empty/blending-ranges"}
        raise ValueError(force)


def harvest(paths, limit_bytes=None):
    """Pool of (key, payload object) from normally parsed fixtures."""
    import psd_tools.psd as P
    pool = {"tagged": [], "resources": []}
    seen_t, seen_r = {}, {}
    for f in paths:
        try:
            b = open(f, "rb").read()
            if limit_bytes and len(b) > limit_bytes:
                continue
            d = P.PSD.frombytes(b)
        except Exception:
            continue
        lam = d.layer_and_mask_information
        blocks = []
        if lam.tagged_blocks:
            blocks += list(lam.tagged_blocks.values())
        if lam.layer_info and lam.layer_info.layer_records:
            for r in lam.layer_info.layer_records:
                blocks += list(r.tagged_blocks.values())
        for t in blocks:
            k = getattr(t.key, "value", t.key)
            if seen_t.get(k, 0) < 3 and hasattr(t.data, "write"):
                seen_t[k] = seen_t.get(k, 0) + 1
                pool["tagged"].append((t.key, t.data))
        for k in d.image_resources:
            r = d.image_resources[k]
            kv = getattr(k, "value", k)
            if seen_r.get(kv, 0) < 2 and hasattr(r.data, "write"):
                seen_r[kv] = seen_r.get(kv, 0) + 1
                pool["resources"].append((r.key, r.data))
    return pool
