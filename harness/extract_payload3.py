"""C01 (payload classes, third batch) extractor: the table-shaped facts of the image-resource payloads, the adjustment
payloads, the vector data and the filter effects, read from the live modules and from their AST on every run
-> lean/PsdVerif/Generated/Payload3.lean.

Per unit (see lean/PsdVerif/Model/Payload3*.lean):

* `unitNCalls`      every call of a `psd_tools.utils` primitive made by a method of a modelled class: (class, method,
                    primitive, arguments as written), in source order (extract_payload.calls_table);
* `unitNConditions` the tests of the `if` statements and of the conditional expressions of those methods, in source order;
* `unitNAsserts`    the tests of their `assert` statements; `unitNExcepts` the exception types their `try` statements catch;
* `unitNRegistry`   the registry rows of the modelled classes (`image_resources.TYPES`: resource id -> class;
                    `tagged_blocks.TYPES`: key -> class; `vector.TYPES`: selector -> class);
* enum member tables and validator option sets used by the models.

A source that no longer has the shape read here is not an infrastructure error: the table is emitted with what was found
(sentinel rows `<missing>`), the tie theorems of Props/C01Payload3.lean then fail, and the run goes on.
"""
from __future__ import annotations

import ast
import importlib

import extract_payload as ep
from extract_payload import _s, _bytes, rows4

IR = "psd_tools.psd.image_resources"
ADJ = "psd_tools.psd.adjustments"
VEC = "psd_tools.psd.vector"
FE = "psd_tools.psd.filter_effects"
RW = ("read", "write")

UNIT7 = [(IR, "ImageResource", RW), (IR, "AlphaIdentifiers", RW), (IR, "AlphaNamesPascal", RW), (IR, "AlphaNamesUnicode", RW),
         (IR, "DisplayInfo", RW), (IR, "AlphaChannel", RW), (IR, "Byte", RW), (IR, "GridGuidesInfo", RW), (IR, "HalftoneScreens", RW),
         (IR, "HalftoneScreen", RW), (IR, "Integer", RW), (IR, "LayerGroupEnabledIDs", RW), (IR, "LayerGroupInfo", RW),
         (IR, "LayerSelectionIDs", RW), (IR, "ShortInteger", RW), (IR, "PascalString", RW), (IR, "PixelAspectRatio", RW),
         (IR, "PrintFlags", RW), (IR, "PrintFlagsInfo", RW), (IR, "PrintScale", RW), (IR, "ResoulutionInfo", RW), (IR, "Slices", RW),
         (IR, "SlicesV6", RW), (IR, "SliceV6", RW), (IR, "ThumbnailResource", RW), (IR, "ThumbnailResourceV4", RW),
         (IR, "TransferFunctions", RW), (IR, "TransferFunction", RW), (IR, "URLList", RW), (IR, "URLItem", RW), (IR, "VersionInfo", RW)]
UNIT8 = [(ADJ, "BrightnessContrast", RW), (ADJ, "ColorBalance", RW), (ADJ, "ColorLookup", RW), (ADJ, "ChannelMixer", RW),
         (ADJ, "Curves", RW), (ADJ, "CurvesExtraMarker", RW), (ADJ, "CurvesExtraItem", RW), (ADJ, "GradientMap", RW),
         (ADJ, "ColorStop", RW), (ADJ, "TransparencyStop", RW), (ADJ, "Exposure", RW), (ADJ, "HueSaturation", RW), (ADJ, "Levels", RW),
         (ADJ, "LevelRecord", RW), (ADJ, "PhotoFilter", RW), (ADJ, "SelectiveColor", RW)]
UNIT9 = [(VEC, "Path", RW), (VEC, "Subpath", RW), (VEC, "Knot", RW), (VEC, "ClosedPath", RW), (VEC, "OpenPath", RW),
         (VEC, "ClosedKnotLinked", RW), (VEC, "ClosedKnotUnlinked", RW), (VEC, "OpenKnotLinked", RW), (VEC, "OpenKnotUnlinked", RW),
         (VEC, "PathFillRule", RW), (VEC, "ClipboardRecord", RW), (VEC, "InitialFillRule", RW), (VEC, "VectorMaskSetting", RW),
         (VEC, "VectorStrokeContentSetting", RW)]
UNIT10 = [(FE, "FilterEffects", RW), (FE, "FilterEffect", ("read", "_read_body", "write", "_write_body")), (FE, "FilterEffectChannel", RW),
          (FE, "FilterEffectExtra", RW)]
UNITS = {"unit7": UNIT7, "unit8": UNIT8, "unit9": UNIT9, "unit10": UNIT10}


def _tests(fn, kinds):
    found = []
    for n in ast.walk(fn):
        if isinstance(n, kinds):
            found.append(((n.lineno, n.col_offset), " ".join(ast.unparse(n.test).split())))
    found.sort()
    return [t for _, t in found]


def tests_table(spec, notes, kinds):
    """(class, method, tests joined by `; `) for the methods that have any"""
    rows, trees = [], {}
    for modname, cname, methods in spec:
        if modname not in trees:
            trees[modname] = ep._module_tree(modname, notes)[1]
        cls = ep._class_node(trees[modname], cname)
        for m in methods:
            fn = ep._method_node(cls, m)
            if fn is None:
                if cls is None:
                    rows.append((cname, m, "<missing>"))
                continue
            ts = _tests(fn, kinds)
            if ts:
                rows.append((cname, m, "; ".join(ts)))
    return rows


def excepts_table(spec, notes):
    rows, trees = [], {}
    for modname, cname, methods in spec:
        if modname not in trees:
            trees[modname] = ep._module_tree(modname, notes)[1]
        cls = ep._class_node(trees[modname], cname)
        for m in methods:
            fn = ep._method_node(cls, m)
            if fn is None:
                continue
            hs = [((n.lineno, n.col_offset), ast.unparse(n.type) if n.type is not None else "<bare>")
                  for n in ast.walk(fn) if isinstance(n, ast.ExceptHandler)]
            hs.sort()
            if hs:
                rows.append((cname, m, "; ".join(t for _, t in hs)))
    return rows


def bases_table(spec, notes):
    """(class, base classes) - which `read` / `write` a class without its own inherits"""
    rows, trees = [], {}
    for modname, cname, _ in spec:
        if modname not in trees:
            trees[modname] = ep._module_tree(modname, notes)[1]
        cls = ep._class_node(trees[modname], cname)
        rows.append((cname, ", ".join(ast.unparse(b) for b in cls.bases) if cls is not None else "<missing>"))
    return rows


def rows3(xs):
    return rows4(xs)


def _opts(modname, cname, field, notes, as_bytes=False):
    try:
        K = getattr(importlib.import_module(modname), cname)
        o = ep._validator_options(K, field)
        if not o:
            notes.append(f"{cname}.{field}: no in_ validator found: generated as empty")
        return [bytes(getattr(x, "value", x)) for x in o] if as_bytes else sorted(int(x) for x in o)
    except Exception as e:  # noqa
        notes.append(f"{cname}.{field}: validator not readable ({type(e).__name__}): generated as empty")
        return []


def _registry(modname, attr, notes, int_keys):
    try:
        reg = getattr(importlib.import_module(modname), attr)
        if not isinstance(reg, dict):
            raise TypeError("not a dict")
    except Exception as e:  # noqa
        notes.append(f"{modname}.{attr} not readable ({type(e).__name__}): generated as empty")
        return []
    out = []
    for k, v in reg.items():
        kk = getattr(k, "value", k)
        out.append((int(kk) if int_keys else bytes(kk), getattr(v, "__name__", repr(v))))
    return sorted(out)


def _fn_text(modname, name, notes):
    _, tree = ep._module_tree(modname, notes)
    for n in tree.body:
        if isinstance(n, ast.FunctionDef) and n.name == name:
            return ep._body_text(n)
    return "<missing>"


def _find(modname, cname, mname, pred, notes):
    _, tree = ep._module_tree(modname, notes)
    return ep._find_expr(ep._method_node(ep._class_node(tree, cname), mname), pred)


def gen_payload3(ctx):
    notes: list = []
    P = ["namespace PsdVerif.Generated.Payload3\n"]
    summary = {}
    bl = lambda xs: "[" + ", ".join(_bytes(x) for x in xs) + "]"
    IF = (ast.If, ast.IfExp, ast.While)

    # ---------------------------------------------------------------- unit 7: image resources
    P.append(f"/-- members of `constants.AlphaChannelMode` -/\ndef alphaChannelModes : List Nat := {ep._enum_ints('psd_tools.constants', 'AlphaChannelMode', notes)}\n"
             f"/-- members of `constants.PrintScaleStyle` -/\ndef printScaleStyles : List Nat := {ep._enum_ints('psd_tools.constants', 'PrintScaleStyle', notes)}\n"
             f"/-- options of the validator of `Slices.version` -/\ndef slicesVersions : List Nat := {_opts(IR, 'Slices', 'version', notes)}\n"
             f"/-- options of the validator of `ImageResource.signature`, sorted -/\n"
             f"def resourceSignatures : List (List UInt8) := {bl(sorted(_opts(IR, 'ImageResource', 'signature', notes, as_bytes=True)))}\n")

    def frombytes(n):
        if isinstance(n, ast.Call) and ast.unparse(n.func).endswith(".frombytes"):
            return ast.unparse(n)

    def datawrite(n):
        if isinstance(n, ast.Call) and ast.unparse(n.func) == "self.data.write":
            return ast.unparse(n)
    P.append(f"/-- how `ImageResource.read` reads a typed payload -/\ndef resourcePayloadRead : String := {_s(_find(IR, 'ImageResource', 'read', frombytes, notes))}\n"
             f"/-- how `ImageResource.write` writes a payload object -/\ndef resourcePayloadWrite : String := {_s(_find(IR, 'ImageResource', 'write', datawrite, notes))}\n")
    reg7 = _registry(IR, "TYPES", notes, int_keys=True)
    P.append("/-- `image_resources.TYPES`: (resource id, class name), sorted by id -/\n"
             "def unit7Registry : List (Nat × String) := [\n  " + ",\n  ".join(f"({k}, {_s(v)})" for k, v in reg7) + "\n]\n")
    summary["unit7Registry"] = len(reg7)

    # ---------------------------------------------------------------- unit 8: adjustments
    P.append(f"/-- validator options of the adjustment classes -/\ndef channelMixerVersions : List Nat := {_opts(ADJ, 'ChannelMixer', 'version', notes)}\n"
             f"def curvesExtraVersions : List Nat := {_opts(ADJ, 'CurvesExtraMarker', 'version', notes)}\n"
             f"def gradientMapVersions : List Nat := {_opts(ADJ, 'GradientMap', 'version', notes)}\n"
             f"def gradientMethods : List (List UInt8) := {bl(_opts(ADJ, 'GradientMap', 'method', notes, as_bytes=True))}\n"
             f"def gradientExpansions : List Nat := {_opts(ADJ, 'GradientMap', 'expansion', notes)}\n"
             f"def gradientLengths : List Nat := {_opts(ADJ, 'GradientMap', 'length', notes)}\n"
             f"def levelsVersions : List Nat := {_opts(ADJ, 'Levels', 'version', notes)}\n"
             f"def photoFilterVersions : List Nat := {_opts(ADJ, 'PhotoFilter', 'version', notes)}\n"
             f"def selectiveColorVersions : List Nat := {_opts(ADJ, 'SelectiveColor', 'version', notes)}\n")
    tb = _registry("psd_tools.psd.tagged_blocks", "TYPES", notes, int_keys=False)
    adj_names = {c for _, c, _ in UNIT8}
    try:
        adj_update = {bytes(getattr(k, "value", k)) for k in importlib.import_module(ADJ).ADJUSTMENT_TYPES}
    except Exception:  # noqa
        notes.append("adjustments.ADJUSTMENT_TYPES not found")
        adj_update = set()
    reg8 = [(k, v) for k, v in tb if v in adj_names or k in adj_update]
    P.append("/-- `tagged_blocks.TYPES` restricted to `ADJUSTMENT_TYPES`: (key, class name), sorted -/\n"
             "def unit8Registry : List (List UInt8 × String) := [\n  " + ",\n  ".join(f"({_bytes(k)}, {_s(v)})" for k, v in reg8) + "\n]\n")
    summary["unit8Registry"] = len(reg8)

    # ---------------------------------------------------------------- unit 9: vector data
    sel = _registry(VEC, "TYPES", notes, int_keys=True)
    P.append(f"/-- members of `constants.PathResourceID` -/\ndef pathResourceIDs : List Nat := {ep._enum_ints('psd_tools.constants', 'PathResourceID', notes)}\n"
             "/-- `vector.TYPES`: (selector, class name), sorted -/\n"
             "def pathSelectors : List (Nat × String) := [" + ", ".join(f"({k}, {_s(v)})" for k, v in sel) + "]\n"
             f"/-- bodies of `decode_fixed_point` / `encode_fixed_point` -/\ndef decodeFixedPoint : String := {_s(_fn_text(VEC, 'decode_fixed_point', notes))}\n"
             f"def encodeFixedPoint : String := {_s(_fn_text(VEC, 'encode_fixed_point', notes))}\n")
    vec_names = {"VectorMaskSetting", "VectorStrokeContentSetting"}
    vec_desc = {b"vstk", b"vogk"}
    reg9 = [(k, v) for k, v in tb if v in vec_names or k in vec_desc]
    P.append("/-- `tagged_blocks.TYPES`: the vector keys: (key, class name), sorted -/\n"
             "def unit9Registry : List (List UInt8 × String) := [\n  " + ",\n  ".join(f"({_bytes(k)}, {_s(v)})" for k, v in reg9) + "\n]\n")

    # ---------------------------------------------------------------- unit 10: filter effects
    reg10 = [(k, v) for k, v in tb if v == "FilterEffects"]
    P.append("/-- `tagged_blocks.TYPES`: the filter-effect keys -/\n"
             "def unit10Registry : List (List UInt8 × String) := [\n  " + ",\n  ".join(f"({_bytes(k)}, {_s(v)})" for k, v in reg10) + "\n]\n")

    # ---------------------------------------------------------------- per unit: calls, conditions, asserts, excepts, bases
    for unit, spec in UNITS.items():
        for what, fn in (("Calls", lambda s: ep.calls_table(s, notes)),
                         ("Conditions", lambda s: tests_table(s, notes, IF)),
                         ("Asserts", lambda s: tests_table(s, notes, (ast.Assert,))),
                         ("Excepts", lambda s: excepts_table(s, notes)),
                         ("Bases", lambda s: bases_table(s, notes))):
            try:
                rows = fn(spec)
            except Exception as e:  # noqa
                notes.append(f"{unit}{what} extraction failed: {type(e).__name__}: {e}")
                rows = [("<extractor>", "<failed>", "<missing>", "")[: (4 if what == "Calls" else 2 if what == "Bases" else 3)]]
            ty = {"Calls": "String × String × String × String", "Bases": "String × String"}.get(what, "String × String × String")
            P.append(f"/-- {unit}: {what.lower()} of the modelled classes, in source order -/\n"
                     f"def {unit}{what} : List ({ty}) := {rows4(rows)}\n")
            summary[unit + what] = len(rows)
    P.append("end PsdVerif.Generated.Payload3\n")
    for n in notes:
        ctx.notes.append("extract_payload3: " + n)
    ctx.write_generated("Payload3", "".join(P))
    return summary
